#!/usr/bin/env python3
"""run_corpus.py [--only <substr>] [--jobs N]

Self-test of the machinery on a scratch copy of /repo (never on /repo itself):
  must-fail : /verif/seeded/*/patch.diff (changes written by independent sub-agents) and
              /verif/selftest/canaries/*.diff (each fix: commit reverted): the listed checks must exit 1
  must-pass : /verif/selftest/refactors/*.diff (harmless edits): every check must stay silent
Writes /verif/selftest/RESULTS.md. Evidence/work of these runs go to the scratch area (VERIF_OUT).
"""
import json, os, re, shutil, subprocess, sys, tempfile, concurrent.futures

ROOT = os.path.dirname(os.path.dirname(os.path.abspath(__file__)))
CANARY_PROPS = {
    "mod10_10": ["C01", "C05"], "deriveRFC4226_rejects": ["C01", "C10"], "GenerateTOTP_treats": ["C02", "C10"],
    "ValidateHOTP_underflow": ["C03"], "ValidateTOTP_refuses": ["C04", "C19"], "parseRawSuite_accepts": ["C15"],
    "parseTimeGranularity": ["C15"], "only_S_and": ["C15"], "ParseOTPAuthURL_rejects": ["C16"], "generated_otpauth": ["C16"],
    "wasm_validateHOTP": ["C20"], "otp_js_exports": ["C20"],
}
REFACTOR_PROPS = {
    "rename_local_GenerateHOTP": ["C01", "C07"], "reorder_defaulting_generateOTPURL": ["C16"], "switch_to_if_challengeLength": ["C14", "C05"],
    "hoist_digits_validateRFC4226": ["C03", "C04"], "invert_branch_padBytes": ["C05", "C12"], "change_error_text": ["C03", "C13"],
    "add_unrelated_init_closure": ["C01", "C02", "C11"],
    "recovery_early_return": ["C19", "C18"],
    "chain_local_accumulator": ["C19", "C18"],
    "struct_zero_compare_validateReq": ["C09", "C13", "C18", "C19"],
}


def items(only):
    out = []
    sd = os.path.join(ROOT, "seeded")
    for d in sorted(os.listdir(sd)):
        meta = os.path.join(sd, d, "meta.json")
        if not os.path.exists(meta):
            continue
        m = json.load(open(meta))
        out.append(("seeded/" + d, os.path.join(sd, d, "patch.diff"), m["properties"], "fail"))
    cd = os.path.join(ROOT, "selftest", "canaries")
    for f in sorted(os.listdir(cd)):
        props = next((v for k, v in CANARY_PROPS.items() if k in f), None)
        if props:
            out.append(("canary/" + f[:-5], os.path.join(cd, f), props, "fail"))
    rd = os.path.join(ROOT, "selftest", "refactors")
    for f in sorted(os.listdir(rd)):
        props = REFACTOR_PROPS.get(f[:-5])
        if props:
            out.append(("refactor/" + f[:-5], os.path.join(rd, f), props, "pass"))
    # harmless refactorings written by independent sub-agents: every property's check must stay silent
    ad = os.path.join(ROOT, "selftest", "refactors-agent")
    if os.path.isdir(ad):
        allp = ["C%02d" % k for k in range(1, 21)]
        for f in sorted(os.listdir(ad)):
            if f.endswith(".diff"):
                out.append(("refactor-agent/" + f[:-5], os.path.join(ad, f), allp, "pass"))
    return [i for i in out if not only or only in i[0]]


def run_item(item):
    name, patch, props, expect = item
    scratch = tempfile.mkdtemp(prefix="verif-corpus-", dir=os.environ.get("VERIF_SCRATCH", "/var/tmp"))
    try:
        repo = os.path.join(scratch, "repo")
        subprocess.run(["rsync", "-a", "--exclude", ".git", "/repo/", repo + "/"], check=True)
        r = subprocess.run(["patch", "-p1", "-s", "-i", patch], cwd=repo, capture_output=True, text=True)
        if r.returncode != 0:
            return (name, expect, "PATCH-FAILED", r.stdout[-200:])
        # the suite must still pass for must-fail items (that is what makes them interesting)
        env = dict(os.environ, GOPROXY="off", GOCACHE=os.path.join(scratch, "gocache"), GOFLAGS="")
        b = subprocess.run(["go", "build", "./..."], cwd=repo, env=env, capture_output=True, text=True)
        if b.returncode != 0:
            return (name, expect, "DOES-NOT-BUILD", b.stderr[-200:])
        res = []
        detail = []
        for p in props:
            e2 = dict(os.environ, VERIF_REPO=repo, VERIF_OUT=os.path.join(scratch, "out"), GOCACHE=os.path.join(scratch, "gocache"))
            c = subprocess.run([os.path.join(ROOT, "bin", "check"), p], capture_output=True, text=True, env=e2, cwd=ROOT)
            res.append(f"{p}:rc={c.returncode}")
            v = [l for l in c.stdout.splitlines() if l.startswith("# failed")][:2]
            conf = sum(1 for l in c.stdout.splitlines() if l.startswith("VIOLATION") and "no-failing-input-found" not in l)
            detail.append(f"{p}: " + ("; ".join(x[20:110] for x in v) if v else "silent") + (f" [replay confirmed {conf}]" if conf else ""))
        rcs = [int(x.split("=")[1]) for x in res]
        if expect == "fail":
            verdict = "DETECTED" if any(rc == 1 for rc in rcs) else ("NO-VERDICT" if any(rc == 2 for rc in rcs) else "MISSED")
        else:
            verdict = "SILENT" if all(rc == 0 for rc in rcs) else "FALSE-ALARM"
        return (name, expect, verdict, " | ".join(detail))
    finally:
        shutil.rmtree(scratch, ignore_errors=True)


def main():
    only = None
    prop = None
    jobs = 3
    a = sys.argv[1:]
    while a:
        if a[0] == "--only":
            only = a[1]; a = a[2:]
        elif a[0] == "--prop":
            prop = a[1]; a = a[2:]
        elif a[0] == "--jobs":
            jobs = int(a[1]); a = a[2:]
        else:
            a = a[1:]
    its = items(only)
    if prop:
        # the items that target this property, checked against this property only
        its = [(n, p, [prop], e) for (n, p, ps, e) in its if prop in ps and (e == "pass" or ps[0] == prop or n.startswith("canary/"))]
    rows = []
    with concurrent.futures.ThreadPoolExecutor(max_workers=jobs) as ex:
        for r in ex.map(run_item, its):
            print(r[0], r[2], "::", r[3][:300], flush=True)
            rows.append(r)
    if prop:
        print("SELFTEST-JSON " + json.dumps([{"item": r[0], "expected": r[1], "result": r[2]} for r in rows]))
    if not only and not prop:
        with open(os.path.join(ROOT, "selftest", "RESULTS.md"), "w") as f:
            f.write("# Self-test corpus results (scratch copies of /repo; regenerated by selftest/run_corpus.py)\n\n| item | expected | result | obligations reported |\n|---|---|---|---|\n")
            for r in rows:
                f.write(f"| {r[0]} | {r[1]} | {r[2]} | {r[3].replace('|', '/')[:400]} |\n")
    bad = [r for r in rows if r[2] not in ("DETECTED", "SILENT")]
    print(f"corpus: {len(rows)} items, {len(bad)} not as expected")
    sys.exit(1 if bad else 0)


if __name__ == "__main__":
    main()
