#!/bin/bash
# seed_eval.sh <worktree> <seed-id> <property> [more properties...]
# Confirms a seeded change (suite passes, demo fails with / passes without), stores it under
# /verif/seeded/<seed-id>/ and runs the property's check on /repo with the change applied.
set -u
WT=$1; SID=$2; shift 2; PROPS="$@"
D=/verif/seeded/$SID; mkdir -p $D
cd $WT || exit 2
git diff > $D/patch.diff
DEMO=$(git ls-files --others --exclude-standard | grep '_test.go$' | head -1)
[ -n "$DEMO" ] && cp $WT/$DEMO $D/$(basename $DEMO)
[ -f SEEDED.md ] && cp SEEDED.md $D/SEEDED.md
export GOPROXY=off
DEMODIR=$(dirname "$WT/$DEMO")
# a demo under wasm/ is a js/wasm test: run it under node
DEMOENV=""; DEMOEXEC=""
case "$DEMO" in wasm/*)
  WX=$(mktemp /var/tmp/wasm_exec.XXXXXX.sh); printf '#!/bin/sh\nexec node "$(go env GOROOT)/lib/wasm/wasm_exec_node.js" "$@"\n' > $WX; chmod +x $WX
  DEMOENV="GOOS=js GOARCH=wasm"; DEMOEXEC="-exec=$WX";;
esac
suite=$( (cd $WT && go test -vet=off -count=1 -skip 'TestSeededDemo$' ./... 2>&1; cd $WT/internal/app && go test -vet=off -count=1 -skip 'TestSeededDemo$' ./... 2>&1) | grep -c -E '^(FAIL|---.FAIL)')
demo_with=$(cd $DEMODIR && env $DEMOENV go test $DEMOEXEC -vet=off -count=1 -run 'TestSeededDemo$' . 2>&1 | grep -c -E '^(FAIL|--- FAIL)')
git apply -R $D/patch.diff   # (not git stash: refs/stash is shared by all worktrees)
demo_without=$(cd $DEMODIR && env $DEMOENV go test $DEMOEXEC -vet=off -count=1 -run 'TestSeededDemo$' . 2>&1 | grep -c -E '^(FAIL|--- FAIL)')
git apply $D/patch.diff
[ -n "${WX:-}" ] && rm -f $WX
echo "suite_failures_with_change=$suite demo_fails_with=$demo_with demo_fails_without=$demo_without"
res=""
# the checks run on a scratch copy of /repo with the change applied (never on /repo itself: other jobs may be reading it)
SC=$(mktemp -d /var/tmp/verif-seed.XXXXXX)
rsync -a --exclude .git /repo/ $SC/repo/
if (cd $SC/repo && patch -p1 -s < $D/patch.diff); then
  for P in $PROPS; do
    out=$(cd /verif && VERIF_REPO=$SC/repo VERIF_OUT=$SC/out ./bin/check $P 2>&1); rc=$?
    echo "--- check $P rc=$rc"; echo "$out" | grep -E '^(VIOLATION|# failed|ENGINE|CONTRACT|check )' | cut -c1-260 | head -12
    res="$res $P:rc=$rc"
  done
else
  echo "PATCH DOES NOT APPLY to /repo"; res="noapply"
fi
rm -rf $SC
python3 - "$D" "$SID" "$suite" "$demo_with" "$demo_without" "$res" "$PROPS" <<'PY'
import json,sys,os
d,sid,suite,dw,dwo,res,props=sys.argv[1:8]
meta={"seed_id":sid,"properties":props.split(),"suite_failures_with_change":int(suite),"demo_fails_with_change":int(dw)>0,"demo_fails_without_change":int(dwo)>0,
 "check_results":res.split(),"confirmed":int(suite)==0 and int(dw)>0 and int(dwo)==0,
 "needs":"see SEEDED.md","ran":"selftest/seed_eval.sh: go test (suite, demo with/without change), patch on a scratch copy of /repo, bin/check with VERIF_REPO"}
if os.path.exists(os.path.join(d,"meta.json")):
    old=json.load(open(os.path.join(d,"meta.json"))); meta["needs"]=old.get("needs",meta["needs"])
json.dump(meta,open(os.path.join(d,"meta.json"),"w"),indent=1)
print("meta:",meta["confirmed"],meta["check_results"])
PY
