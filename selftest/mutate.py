#!/usr/bin/env python3
"""mutate.py --unit lib|wasm|api [--files f1,f2] [--jobs N] [--limit N] [--out FILE]

Mutation sweep used to look for holes in the contracts (self-test only; never part of a registered check).
For every small syntactic mutant of the unit's sources (relational/logical/arithmetic operator flips, integer
constants +-1, dropped negation, flipped boolean results, deleted simple statements) on a scratch copy of /repo:
  1. it must compile and the repository's own test suite must still pass (otherwise: killed by tests, uninteresting)
  2. the whole unit is run through govc; obligations that fail and do not fail on the unchanged tree = detected
Mutants that survive both are printed for triage: each is either equivalent (behaviour unchanged or outside every
property) or a hole in a contract. Results go to selftest/MUTATION.md via --out.
"""
import os, re, subprocess, sys, shutil, tempfile, json, concurrent.futures, hashlib

ROOT = os.path.dirname(os.path.dirname(os.path.abspath(__file__)))
REPO = "/repo"
UNITS = {
    "lib": dict(files=["decoder.go", "derive.go", "derive_rfc4226.go", "derive_rfc6287.go", "hotp.go", "ocra.go", "otp.go", "suite_rfc6287.go",
                       "totp.go", "utils.go", "validate.go"],
                test=[(".", ["go", "test", "-count=1", "-vet=off", "./..."])],
                govc=["-unit", "lib", "-funcs", ".*", "-skip", r"^otp\.init$"]),
    "wasm": dict(files=["wasm/main.go", "derive_rfc4226_wasm.go", "validate_wasm.go"],
                 # these files are compiled for js/wasm only: the native suite cannot see them; compile both packages (two arguments: no link step)
                 test=[(".", ["env", "GOOS=js", "GOARCH=wasm", "go", "build", "./wasm/", "."])],
                 govc=["-unit", "wasm", "-funcs", r"^main\.|^otp\.(DeriveRFC4226Wasm|ValidateOTPWasm|pow10Wasm)", "-skip", r"^(otp\.init|main\.main)$"]),
    "api": dict(files=["internal/app/api/handlers.go", "internal/app/api/dto.go", "internal/app/api/routers.go", "internal/app/api/middleware.go", "internal/app/api/common.go"],
                test=[(".", ["go", "test", "-count=1", "-vet=off", "./..."]), ("internal/app", ["go", "build", "./..."])],
                govc=["-unit", "api", "-funcs", r"^api\.", "-skip", r"^api\.(\(\*Server\)\..*|NewServer.*|Recovery|Recovery\$1|Logger.*|Chain.*|captureStackTrace)$"]),
}

TOKEN = re.compile(r'''("(?:\\.|[^"\\])*"|`[^`]*`|'(?:\\.|[^'\\])+'|//.*$|<-|<<=?|>>=?|&\^|<=|>=|==|!=|&&|\|\||:=|\+\+|--|[-+*/%&|^]=|0[xX][0-9a-fA-F_]+|\d+|[A-Za-z_]\w*|.)''')

REL = {"<=": ["<"], "<": ["<="], ">=": [">"], ">": [">="], "==": ["!="], "!=": ["=="], "&&": ["||"], "||": ["&&"]}


def mutants_of_line(line):
    """yield (description, new line)"""
    s = line.rstrip("\n")
    st = s.strip()
    if not st or st.startswith("//") or st.startswith("import") or st.startswith("package") or st.startswith('"'):
        return
    toks = []
    pos = 0
    for m in TOKEN.finditer(s):
        toks.append((m.start(), m.group(0)))
    def rebuild(i, new):
        a, t = toks[i]
        return s[:a] + new + s[a + len(t):]
    for i, (a, t) in enumerate(toks):
        if t.startswith("//"):
            break
        if t in REL:
            # skip generic brackets / type params: require spaces around
            if a > 0 and s[a - 1] == " " and a + len(t) < len(s) and s[a + len(t)] == " ":
                for n in REL[t]:
                    yield (f"{t} -> {n}", rebuild(i, n))
        elif t in ("+", "-") and a > 0 and s[a - 1] == " " and a + 1 < len(s) and s[a + 1] == " ":
            yield (f"{t} -> {'-' if t == '+' else '+'}", rebuild(i, "-" if t == "+" else "+"))
        elif re.fullmatch(r"\d+", t) and not (i > 0 and toks[i - 1][1] in (".",)) and "`" not in s:
            v = int(t)
            if v <= 100000:
                yield (f"{t} -> {v + 1}", rebuild(i, str(v + 1)))
                if v > 0:
                    yield (f"{t} -> {v - 1}", rebuild(i, str(v - 1)))
        elif t == "!" and a + 1 < len(s) and (s[a + 1].isalpha() or s[a + 1] == "("):
            yield ("drop !", rebuild(i, ""))
        elif t in ("true", "false") and "return" in s:
            yield (f"{t} flipped", rebuild(i, "false" if t == "true" else "true"))
    # deletion of a call statement (incl. deferred calls): `f(x)`, `obj.M(a, b)`, `defer p.Put(b)`
    if re.match(r"^\s*(defer\s+)?[A-Za-z_][\w\.]*\(.*\)\s*$", s) and not re.match(r"^\s*(return|if|for|switch|go|func|case)\b", s):
        yield ("delete call", re.match(r"^\s*", s).group(0) + "// deleted call")
    # statement deletion: simple assignments / calls on their own line
    if re.match(r"^\s*[\w\.\[\]\*]+(\s*,\s*[\w\.\[\]]+)*\s*(=|\+=|-=)\s*[^=].*[^{]$", s) and ":=" not in s:
        yield ("delete statement", re.match(r"^\s*", s).group(0) + "// deleted")


def gen(unit, files):
    out = []
    for f in files:
        path = os.path.join(REPO, f)
        lines = open(path).read().split("\n")
        in_block_comment = False
        in_raw = False
        for n, line in enumerate(lines):
            if "/*" in line:
                in_block_comment = True
            if in_block_comment:
                if "*/" in line:
                    in_block_comment = False
                continue
            if line.count("`") % 2 == 1:
                in_raw = not in_raw
                continue
            if in_raw:
                continue
            for desc, new in mutants_of_line(line):
                if new != line:
                    out.append((f, n, desc, new))
    return out


def run(cmd, cwd, env, timeout=600):
    try:
        return subprocess.run(cmd, cwd=cwd, env=env, capture_output=True, text=True, timeout=timeout)
    except subprocess.TimeoutExpired:
        class R: returncode = 124; stdout = ""; stderr = "timeout"
        return R()


def govc_failed(unit, repo, work, timeout="15"):
    r = run([os.path.join(ROOT, "bin", "govc"), "-repo", repo, "-work", work, "-timeout", timeout, "-jobs", "5"] + UNITS[unit]["govc"], ROOT, dict(os.environ, GOPROXY="off"), timeout=1500)
    failed = set()
    for l in (r.stdout + r.stderr).splitlines():
        m = re.match(r"^(FAILED|ERROR) (\S+)", l)
        if m:
            failed.add(re.sub(r"#\d+", "", m.group(2)))
    if r.returncode not in (0, 1):
        failed.add("ENGINE:" + (r.stderr.strip().splitlines() or ["?"])[-1][:120])
    return failed


def eval_mutant(args):
    unit, baseline, (f, n, desc, new) = args
    scratch = tempfile.mkdtemp(prefix="verif-mut-", dir="/var/tmp")
    try:
        repo = os.path.join(scratch, "repo")
        subprocess.run(["rsync", "-a", "--exclude", ".git", REPO + "/", repo + "/"], check=True)
        p = os.path.join(repo, f)
        lines = open(p).read().split("\n")
        old = lines[n]
        lines[n] = new
        open(p, "w").write("\n".join(lines))
        env = dict(os.environ, GOPROXY="off", GOFLAGS="")
        for cwd, cmd in UNITS[unit]["test"]:
            r = run(cmd, os.path.join(repo, cwd), env, timeout=300)
            if r.returncode != 0:
                return (f, n, desc, old.strip(), "killed-by-tests" if "FAIL" in r.stdout else "does-not-build", [])
        failed = govc_failed(unit, repo, os.path.join(scratch, "work")) - baseline
        return (f, n, desc, old.strip(), "detected" if failed else "SURVIVED", sorted(failed)[:4])
    finally:
        shutil.rmtree(scratch, ignore_errors=True)


def main():
    a = sys.argv[1:]
    unit, jobs, limit, out, files, every, onlydesc = "lib", 6, 0, None, None, 1, None
    while a:
        if a[0] == "--unit": unit = a[1]; a = a[2:]
        elif a[0] == "--jobs": jobs = int(a[1]); a = a[2:]
        elif a[0] == "--limit": limit = int(a[1]); a = a[2:]
        elif a[0] == "--out": out = a[1]; a = a[2:]
        elif a[0] == "--files": files = a[1].split(","); a = a[2:]
        elif a[0] == "--every": every = int(a[1]); a = a[2:]
        elif a[0] == "--only-desc": onlydesc = a[1]; a = a[2:]
        else: a = a[1:]
    ms = gen(unit, files or UNITS[unit]["files"])
    if onlydesc:
        ms = [m for m in ms if onlydesc in m[2]]
    ms = ms[::every]
    # the registry table (suite_rfc6287.go from `var knownSuites`) is a long literal whose entries are each covered by a
    # ground table obligation: sample every 8th mutant there
    tbl = next((i for i, l in enumerate(open(os.path.join(REPO, "suite_rfc6287.go")).read().split("\n")) if l.startswith("var knownSuites")), 10**9)
    keep, k = [], 0
    for m in ms:
        if m[0] == "suite_rfc6287.go" and m[1] >= tbl:
            k += 1
            if k % 8:
                continue
        keep.append(m)
    ms = keep
    if limit:
        ms = ms[:limit]
    print(f"{len(ms)} mutants for unit {unit}", flush=True)
    scratch = tempfile.mkdtemp(prefix="verif-mut-base-", dir="/var/tmp")
    baseline = govc_failed(unit, REPO, scratch)
    shutil.rmtree(scratch, ignore_errors=True)
    print("baseline failing (excluded by the properties):", sorted(baseline), flush=True)
    rows = []
    with concurrent.futures.ThreadPoolExecutor(max_workers=jobs) as ex:
        for r in ex.map(eval_mutant, [(unit, baseline, m) for m in ms]):
            rows.append(r)
            if r[4] in ("SURVIVED", "detected"):
                print(f"{r[4]:9s} {r[0]}:{r[1]+1} [{r[2]}] {r[3][:90]}  {' '.join(r[5])[:160]}", flush=True)
    cnt = {}
    for r in rows:
        cnt[r[4]] = cnt.get(r[4], 0) + 1
    print("summary:", cnt)
    if out:
        with open(out, "a") as f:
            f.write(f"\n## unit {unit}: {len(rows)} mutants: {cnt}\n\n")
            for r in rows:
                if r[4] == "SURVIVED":
                    f.write(f"- SURVIVED `{r[0]}:{r[1]+1}` [{r[2]}] `{r[3][:100]}`\n")


if __name__ == "__main__":
    main()
