; Spec-function library shared by all contracts (trusted, definitional).
; Written from the RFC texts / property statements, not from the code.
; Loaded after the sequence prelude (sort BSeq, len, at, cat, sub, view, ...).

; Definitions listed here are hidden (declared, not defined) unless a contract says "reveal <name>":
; @opaque hotp otpcode b32ok b32key dt31

; ---- integers -------------------------------------------------------------
(define-fun hlen ((a Int)) Int (ite (= a 0) 20 (ite (= a 1) 32 64)))
(define-fun dig ((v Int) (d Int) (k Int)) Int (+ 48 (mod (div v (pow10 (- (- d 1) k))) 10)))
(declare-fun unixsec (Int Int) Int)

; ---- RFC 4226 -------------------------------------------------------------
; HMAC(alg, key, msg): uninterpreted; only its length and byte range are known.
(declare-fun HMAC (Int BSeq BSeq) BSeq)
(assert (forall ((a Int) (k BSeq) (m BSeq)) (! (= (len (HMAC a k m)) (hlen a)) :pattern ((HMAC a k m)))))
(assert (forall ((a Int) (k BSeq) (m BSeq) (i Int)) (! (=> (and (<= 0 i) (< i (hlen a))) (and (<= 0 (at (HMAC a k m) i)) (<= (at (HMAC a k m) i) 255))) :pattern ((at (HMAC a k m) i)))))
; be8(v): 8-byte big-endian representation
(declare-fun be8 (Int) BSeq)
(assert (forall ((v Int)) (! (= (len (be8 v)) 8) :pattern ((be8 v)))))
(assert (forall ((v Int) (k Int)) (! (=> (and (<= 0 k) (< k 8)) (= (at (be8 v) k) (mod (div v (pow256 (- 7 k))) 256))) :pattern ((at (be8 v) k)))))
; dt31(s): dynamic truncation, RFC 4226 section 5.3 (31-bit value)
(define-fun dtoff ((s BSeq)) Int (mod (at s (- (len s) 1)) 16))
(define-fun dt31 ((s BSeq)) Int
  (+ (* (mod (at s (dtoff s)) 128) 16777216) (* (at s (+ (dtoff s) 1)) 65536) (* (at s (+ (dtoff s) 2)) 256) (at s (+ (dtoff s) 3))))
; fmtdec(v, d): the d low decimal digits of v, most significant first, as ASCII
(declare-fun fmtdec (Int Int) BSeq)
(assert (forall ((v Int) (d Int)) (! (=> (>= d 0) (= (len (fmtdec v d)) d)) :pattern ((fmtdec v d)))))
(assert (forall ((v Int) (d Int) (k Int)) (! (=> (and (<= 0 k) (< k d)) (= (at (fmtdec v d) k) (dig v d k))) :pattern ((at (fmtdec v d) k)))))
(define-fun otpcode ((a Int) (key BSeq) (msg BSeq) (d Int)) BSeq (fmtdec (mod (dt31 (HMAC a key msg)) (pow10 d)) d))
(define-fun hotp ((a Int) (key BSeq) (c Int) (d Int)) BSeq (otpcode a key (be8 c) d))
(define-fun hotpok ((a Int) (d Int)) Bool (and (<= 0 a) (<= a 2) (<= 1 d) (<= d 10)))

; ---- strings / base32 -----------------------------------------------------
(declare-fun trim (BSeq) BSeq)
(declare-fun upper (BSeq) BSeq)
(declare-fun lower (BSeq) BSeq)
(declare-fun rep (BSeq Int) BSeq)
(assert (forall ((s BSeq) (n Int)) (! (=> (>= n 0) (= (len (rep s n)) (* (len s) n))) :pattern ((rep s n)))))
(define-fun hasprefix ((s BSeq) (p BSeq)) Bool (and (>= (len s) (len p)) (SeqEq (sub s 0 (len p)) p)))
(declare-fun stdok (BSeq) Bool)
(declare-fun stddec (BSeq) BSeq)
(declare-fun b32nopad (BSeq) BSeq)
(declare-fun b32std (BSeq) BSeq)
(declare-fun dec (Int) BSeq)
; str!x3d is the string literal "=" (declared by the engine from its bytes)
; repad8(x): x followed by (8 - len(x) mod 8) mod 8 characters '='
(define-fun repad8 ((x BSeq)) BSeq (ite (= (mod (len x) 8) 0) x (cat x (rep str!x3d (- 8 (mod (len x) 8))))))
(define-fun b32norm ((s BSeq)) BSeq (upper (repad8 (trim s))))
(define-fun b32ok ((s BSeq)) Bool (stdok (b32norm s)))
(define-fun b32key ((s BSeq)) BSeq (stddec (b32norm s)))

; ---- RFC 6287 ---------------------------------------------------------------
(define-fun minq ((f Int)) Int (ite (or (= f 1) (= f 3) (= f 5)) 8 (ite (or (= f 2) (= f 4) (= f 6)) 10 0)))
(define-fun padr ((s BSeq) (n Int)) BSeq (cat s (zeros (- n (len s)))))

; ---- text <-> numbers (library vocabulary, uninterpreted) --------------------
(declare-fun isdec64 (BSeq) Bool)
(declare-fun decval (BSeq) Int)
(assert (forall ((s BSeq)) (! (=> (isdec64 s) (and (<= 0 (decval s)) (<= (decval s) 18446744073709551615))) :pattern ((decval s)))))
(declare-fun isint (BSeq) Bool)
(declare-fun intval (BSeq) Int)
(declare-fun ishex (BSeq) Bool)
(declare-fun hexdec (BSeq) BSeq)
(assert (forall ((s BSeq)) (! (=> (ishex s) (= (* 2 (len (hexdec s))) (len s))) :pattern ((hexdec s)))))
(declare-fun isdecbig (BSeq) Bool)
(declare-fun bighex (BSeq) BSeq)
(declare-fun nparts (BSeq BSeq) Int)
(declare-fun part (BSeq BSeq Int) BSeq)
(declare-fun partrest (BSeq BSeq Int) BSeq)
(declare-fun apl (BSeq) Int)
(assert (forall ((s BSeq)) (! (and (<= 0 (apl s)) (<= (apl s) (len s))) :pattern ((apl s)))))
; lpad0(s, n): s left-padded with '0' to at least n characters; characterised by
;   identity when long enough, invariance under prepending one '0' while short, and its length
(declare-fun lpad0 (BSeq Int) BSeq)
(assert (forall ((s BSeq) (n Int)) (! (=> (>= (len s) n) (= (lpad0 s n) s)) :pattern ((lpad0 s n)))))
(assert (forall ((s BSeq) (n Int)) (! (=> (< (len s) n) (= (lpad0 (cat str!x30 s) n) (lpad0 s n))) :pattern ((lpad0 (cat str!x30 s) n)))))
(assert (forall ((s BSeq) (n Int)) (! (= (len (lpad0 s n)) (imax (len s) n)) :pattern ((lpad0 s n)))))
; rpad0(s, n): s right-padded with '0' to at least n characters
(declare-fun rpad0 (BSeq Int) BSeq)
(assert (forall ((s BSeq) (n Int)) (! (=> (>= (len s) n) (= (rpad0 s n) s)) :pattern ((rpad0 s n)))))
(assert (forall ((s BSeq) (n Int)) (! (=> (< (len s) n) (= (rpad0 (cat s str!x30) n) (rpad0 s n))) :pattern ((rpad0 (cat s str!x30) n)))))
(assert (forall ((s BSeq) (n Int)) (! (= (len (rpad0 s n)) (imax (len s) n)) :pattern ((rpad0 s n)))))
; the operating system's random stream (an arbitrary infinite sequence)
(declare-fun rng () BSeq)

; ---- net/url vocabulary (uninterpreted) -------------------------------------
; abstract contents of string->string maps and url.Values: qempty, qset(m,k,v); qhas / qval read them;
; qenc(m) is Values.Encode(), qdec(s) the contents of (*URL).Query() for RawQuery s; qget(s,k) = qval(qdec(s),k)
(declare-fun qempty () BSeq)
(declare-fun qset (BSeq BSeq BSeq) BSeq)
(declare-fun qhas (BSeq BSeq) Bool)
(declare-fun qval (BSeq BSeq) BSeq)
(declare-fun qenc (BSeq) BSeq)
(declare-fun qdec (BSeq) BSeq)
(assert (forall ((k BSeq)) (! (and (not (qhas qempty k)) (= (qval qempty k) empty)) :pattern ((qhas qempty k)) :pattern ((qval qempty k)))))
(assert (forall ((m BSeq) (k BSeq) (v BSeq) (j BSeq)) (! (= (qhas (qset m k v) j) (or (SeqEq j k) (qhas m j))) :pattern ((qhas (qset m k v) j)))))
(assert (forall ((m BSeq) (k BSeq) (v BSeq) (j BSeq)) (! (= (qval (qset m k v) j) (ite (SeqEq j k) v (qval m j))) :pattern ((qval (qset m k v) j)))))
; library round trip (assumed): parsing an encoded query gives its contents back
(assert (forall ((m BSeq) (k BSeq)) (! (and (= (qval (qdec (qenc m)) k) (qval m k)) (= (qhas (qdec (qenc m)) k) (qhas m k))) :pattern ((qval (qdec (qenc m)) k)) :pattern ((qhas (qdec (qenc m)) k)))))
(define-fun qget ((s BSeq) (k BSeq)) BSeq (qval (qdec s) k))
(declare-fun pesc (BSeq) BSeq)
; (*url.URL).String() of a URL that has only Scheme, Host, Path and RawQuery set, and what url.Parse reads back from it
; (library round trip, assumed: Parse(u.String()) returns the same scheme, host, decoded path and raw query)
(declare-fun urlstring4 (BSeq BSeq BSeq BSeq) BSeq)
(declare-fun uscheme (BSeq) BSeq)
(declare-fun uhost (BSeq) BSeq)
(declare-fun upath (BSeq) BSeq)
(declare-fun uquery (BSeq) BSeq)
(declare-fun urlparses (BSeq) Bool)
; stated only for the URLs the library writes: scheme otpauth (str!x6f747061757468), host totp or hotp, rooted path
(assert (forall ((s BSeq) (h BSeq) (p BSeq) (q BSeq)) (! (=> (and (= s str!x6f747061757468) (or (= h str!x746f7470) (= h str!x686f7470)) (>= (len p) 1) (= (at p 0) 47))
   (and (urlparses (urlstring4 s h p q)) (= (uscheme (urlstring4 s h p q)) s) (= (uhost (urlstring4 s h p q)) h) (= (upath (urlstring4 s h p q)) p) (= (uquery (urlstring4 s h p q)) q)))
   :pattern ((urlstring4 s h p q)))))

; ---- syscall/js vocabulary (uninterpreted readings of a JavaScript value) ----
(declare-fun jstype (Int) Int)
(declare-fun jsint (Int) Int)
(declare-fun jsstring (Int) BSeq)
(declare-fun jsbool (Int) Bool)
(declare-fun jsfuncid (Int) Int)
; fill(c, n): n copies of byte c
(declare-fun fill (Int Int) BSeq)
(assert (forall ((c Int) (n Int)) (! (=> (>= n 0) (= (len (fill c n)) n)) :pattern ((fill c n)))))
(assert (forall ((c Int) (n Int) (k Int)) (! (=> (and (<= 0 k) (< k n)) (= (at (fill c n) k) c)) :pattern ((at (fill c n) k)))))
; decimal numerals (assumed fact about strconv.FormatUint, a property of decimal notation):
; for 0 <= v < 10^d, left-padding dec(v) with '0' to d characters gives the d decimal digits of v
(assert (forall ((v Int) (d Int)) (! (=> (and (<= 1 d) (<= d 19) (<= 0 v) (< v (pow10 d)))
   (and (<= 1 (len (dec v))) (<= (len (dec v)) d) (= (cat (fill 48 (- d (len (dec v)))) (dec v)) (fmtdec v d)))) :pattern ((fmtdec v d) (dec v)))))

; ---- REST layer vocabulary (uninterpreted readings of requests and JSON texts) ----
(declare-fun ispost (Int) Bool)
(declare-fun isget (Int) Bool)
(assert (forall ((c Int)) (! (not (and (ispost c) (isget c))) :pattern ((ispost c)) :pattern ((isget c)))))
(declare-fun reqbody (Int) BSeq)
(declare-fun reqpath (Int) BSeq)
(declare-fun reqmethod (Int) BSeq)
(declare-fun reqquery (Int BSeq) BSeq)
(declare-fun jok (BSeq Int) Bool)
(declare-fun jstr (BSeq BSeq) BSeq)
(declare-fun jnum (BSeq BSeq) Int)
(declare-fun jbool (BSeq BSeq) Bool)
(declare-fun jhas (BSeq BSeq) Bool)
; a member that is an array of strings: its length and its k-th element
(declare-fun jarrlen (BSeq BSeq) Int)
(declare-fun jarrstr (BSeq BSeq Int) BSeq)
(declare-fun statustext (Int) BSeq)
(declare-fun contains (BSeq BSeq) Bool)
(assert (forall ((s BSeq)) (! (<= (len (trim s)) (len s)) :pattern ((trim s)))))
; readings of absent JSON members are the zero values (definition of the reading functions)
(assert (forall ((b BSeq) (k BSeq)) (! (=> (not (jhas b k)) (and (= (jnum b k) 0) (= (jstr b k) empty) (not (jbool b k)))) :pattern ((jnum b k)) :pattern ((jstr b k)) :pattern ((jbool b k)))))

; ---- round-trip vocabulary (assumed string/library facts; validated by the bounded library harness, thorough tier) ----
; strconv.Atoi reads back what decimal formatting wrote (non-negative values)
(assert (forall ((n Int)) (! (=> (and (<= 0 n) (<= n 9223372036854775807)) (and (>= (len (dec n)) 1) (isint (dec n)) (= (intval (dec n)) n))) :pattern ((dec n)))))
; the hash names are upper-case already (str!x53484131 = "SHA1", ...323536 = "SHA256", ...353132 = "SHA512")
(assert (and (= (upper str!x53484131) str!x53484131) (= (upper str!x534841323536) str!x534841323536) (= (upper str!x534841353132) str!x534841353132)))
; the type names are lower-case already (str!x746f7470 = "totp", str!x686f7470 = "hotp")
(assert (and (= (lower str!x746f7470) str!x746f7470) (= (lower str!x686f7470) str!x686f7470)))
; strings.SplitN(i + sep + a, sep, 2) = [i, a] when i does not contain sep (nparts(i, sep) = 1), for a one-byte sep
(assert (forall ((i BSeq) (sep BSeq) (a BSeq)) (! (=> (and (= (nparts i sep) 1) (= (len sep) 1))
   (and (>= (nparts (cat (cat i sep) a) sep) 2) (= (part (cat (cat i sep) a) sep 0) i) (= (partrest (cat (cat i sep) a) sep 1) a)))
   :pattern ((nparts (cat (cat i sep) a) sep)) :pattern ((part (cat (cat i sep) a) sep 0)) :pattern ((partrest (cat (cat i sep) a) sep 1)))))
