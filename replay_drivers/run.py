#!/usr/bin/env python3
"""run.py <property> <obligation> <inputs-json>
Replays a failed obligation on the real code: injects the driver test into the package with
`go test -overlay` (nothing is written to the repository) and prints the driver's output."""
import json, os, subprocess, sys, tempfile, shutil
HERE = os.path.dirname(os.path.abspath(__file__))
REPO = os.environ.get("VERIF_REPO", "/repo")
pid, obl, inputs = sys.argv[1], sys.argv[2], json.loads(sys.argv[3])
unit = obl.split(".", 1)[0]
drivers = {"lib": ("replay_lib_test.go.txt", REPO, {}),
           "api": ("replay_api_test.go.txt", os.path.join(REPO, "internal", "app", "api"), {})}
if pid in ("C18", "C19") and unit == "lib":
    unit = "api"  # a library obligation failed under a REST property: replay through the REST layer
if unit not in drivers:
    print("no replay driver for unit", unit); sys.exit(0)
fname, pkgdir, extra_env = drivers[unit]
tmp = tempfile.mkdtemp(prefix="verif-replay-", dir=os.environ.get("VERIF_SCRATCH", "/var/tmp"))
try:
    ov = {"Replace": {os.path.join(pkgdir, "zz_verif_replay_test.go"): os.path.join(HERE, fname)}}
    ovf = os.path.join(tmp, "ov.json"); json.dump(ov, open(ovf, "w"))
    env = dict(os.environ, GOPROXY="off", GOCACHE=os.path.join(tmp, "gocache"), VERIF_REPLAY=json.dumps({"property": pid, "obligation": obl, "inputs": inputs}), **extra_env)
    env.pop("GOFLAGS", None)
    r = subprocess.run(["go", "test", "-overlay", ovf, "-vet=off", "-count=1", "-v", "-timeout", "240s", "-run", "^TestVerifReplay$", "."], cwd=pkgdir, env=env, capture_output=True, text=True)
    out = r.stdout + r.stderr
    print(out[-6000:])
finally:
    shutil.rmtree(tmp, ignore_errors=True)
