#!/usr/bin/env python3
"""Regenerates MANIFEST.json from props.json + manifest_meta.json (kept valid at all times)."""
import json, os, subprocess
ROOT = os.path.dirname(os.path.abspath(__file__))
props = json.load(open(os.path.join(ROOT, "props.json")))
meta = json.load(open(os.path.join(ROOT, "manifest_meta.json")))
allp = [json.loads(l)["id"] for l in open(os.path.join(ROOT, "properties.jsonl"))]
hooks = subprocess.run(["git", "-C", "/repo", "log", "--format=%H %s"], capture_output=True, text=True).stdout.splitlines()
hook_commits = [l.split()[0] for l in hooks if l.split(" ", 1)[1].startswith("verif:")]
checks = []
for pid in allp:
    if pid not in props:
        continue
    m = meta["checks"][pid]
    checks.append({
        "property_id": pid,
        "quick_cmd": f"bin/check {pid} --tier quick",
        "thorough_cmd": f"bin/check {pid} --tier thorough",
        "evidence_file": f"/verif/evidence/{pid}.json",
        "replay_cmd_template": "bin/replay {path}",
        "engine": "govc",
        "level_claimed": {"category": "proof", "text": m["text"], "design_ref": m.get("design_ref", "DESIGN.md §6 " + pid)},
        "level_note": m["note"],
        "technique": m.get("technique", "contract-based deductive verification: weakest-precondition VCs over go/ssa of the real functions, //@ contracts, discharged by z3/cvc5"),
    })
man = {
    "version": 1,
    "setup_cmd": "cd /verif/govc && GOPROXY=off GOFLAGS=-mod=mod GOWORK=off go build -o /verif/bin/govc .",
    "hooks": {
        "guard": "verif",
        "enable": "go build -tags verif (verif_contracts*.go contain comments only; verif_clients.go contains ghost client functions that nothing refers to; all are read by govc and none is compiled without the tag)",
        "baseline_off_cmd": "cd /repo && go test -vet=off -count=1 ./... && cd /repo/internal/app && go test -vet=off -count=1 ./...",
        "source_commits": hook_commits,
        "add_only": True,
    },
    "engines": [{"name": "govc", "path": "/verif/govc", "serves_properties": [c["property_id"] for c in checks],
                 "kind_free_text": "verification-condition generator for Go (go/ssa + //@ contracts -> SMT-LIB), portfolio z3 5.1 / z3 4.8.12 / cvc5 1.0"}],
    "checks": checks,
    "notes": meta.get("notes", ""),
    "not_applicable": [{"property_id": p, "reason": meta["not_applicable"].get(p, "check not built yet in this session (see DESIGN.md §8); no claim is made")} for p in allp if p not in props],
}
json.dump(man, open(os.path.join(ROOT, "MANIFEST.json"), "w"), indent=1)
print("MANIFEST.json:", len(checks), "checks,", len(man["not_applicable"]), "not applicable")
