#!/usr/bin/env python3
"""run.py <which>: runs a bounded stand-in / library validation on the real code (overlay test), prints its summary line."""
import json, os, subprocess, sys, tempfile, shutil
HERE = os.path.dirname(os.path.abspath(__file__))
REPO = os.environ.get("VERIF_REPO", "/repo")
which = sys.argv[1] if len(sys.argv) > 1 else ""
tmp = tempfile.mkdtemp(prefix="verif-standin-", dir=os.environ.get("VERIF_SCRATCH", "/var/tmp"))
try:
    ov = {"Replace": {os.path.join(REPO, "zz_verif_standin_test.go"): os.path.join(HERE, "standin_lib_test.go.txt")}}
    ovf = os.path.join(tmp, "ov.json"); json.dump(ov, open(ovf, "w"))
    env = dict(os.environ, GOPROXY="off", GOCACHE=os.path.join(tmp, "gocache"), VERIF_STANDIN=which)
    env.pop("GOFLAGS", None)
    r = subprocess.run(["go", "test", "-overlay", ovf, "-vet=off", "-count=1", "-v", "-timeout", "300s", "-run", "^TestVerifStandin$", "."], cwd=REPO, env=env, capture_output=True, text=True)
    print("\n".join(l for l in (r.stdout + r.stderr).splitlines() if l.startswith("STANDIN-") or "panic" in l or l.startswith("FAIL")))
finally:
    shutil.rmtree(tmp, ignore_errors=True)
