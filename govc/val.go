package main

// Symbolic values and the flattened memory layout.

import (
	"fmt"
	"go/types"
	"math/big"
)

type Val interface{}

type VInt struct{ T T }
type VBool struct{ T T }
type VStr struct{ T T }  // Go string: immutable BSeq
type VSeq struct{ T T }  // contract-level sequence
type VSlice struct {
	Ref, Off, Len, Cap T
	Elem               types.Type
}
type VPtr struct {
	Ref, Off T
	Elem     types.Type
}
type VStruct struct {
	F   []Val
	Typ types.Type
}
type VArr struct {
	E   []Val
	Typ types.Type
}
type VIface struct{ Tag, Box T }
type VFunc struct{ Id, Env T }
type VMap struct{ Ref T }
type VTuple struct{ E []Val }
type VUnit struct{}

type leafKind int

const (
	lkInt leafKind = iota
	lkBool
	lkStr
	lkRef  // object reference (>= 0, 0 = nil)
	lkOff  // slot offset (>= 0)
	lkLen  // non-negative int
	lkTag  // type tag (>= 0)
	lkFn   // function id
)

type leaf struct {
	kind   leafKind
	lo, hi *big.Int // for lkInt
}

var (
	bigZero = big.NewInt(0)
	bigOne  = big.NewInt(1)
)

func intRange(b *types.Basic) (lo, hi *big.Int) {
	bits := uint(64)
	signed := true
	switch b.Kind() {
	case types.Int8:
		bits = 8
	case types.Int16:
		bits = 16
	case types.Int32:
		bits = 32
	case types.Int64, types.Int, types.UntypedInt, types.UntypedRune:
		bits = 64
	case types.Uint8:
		bits, signed = 8, false
	case types.Uint16:
		bits, signed = 16, false
	case types.Uint32:
		bits, signed = 32, false
	case types.Uint64, types.Uint, types.Uintptr:
		bits, signed = 64, false
	default:
		return nil, nil
	}
	if signed {
		hi = new(big.Int).Sub(new(big.Int).Lsh(bigOne, bits-1), bigOne)
		lo = new(big.Int).Neg(new(big.Int).Lsh(bigOne, bits-1))
	} else {
		lo = bigZero
		hi = new(big.Int).Sub(new(big.Int).Lsh(bigOne, bits), bigOne)
	}
	return
}

func isUnsigned(t types.Type) bool {
	b, ok := t.Underlying().(*types.Basic)
	return ok && b.Info()&types.IsUnsigned != 0
}

func intBits(t types.Type) uint {
	b, ok := t.Underlying().(*types.Basic)
	if !ok {
		return 64
	}
	switch b.Kind() {
	case types.Int8, types.Uint8:
		return 8
	case types.Int16, types.Uint16:
		return 16
	case types.Int32, types.Uint32:
		return 32
	}
	return 64
}

// layout returns the leaves of a type in slot order.
func layout(t types.Type) []leaf {
	switch u := t.Underlying().(type) {
	case *types.Basic:
		switch {
		case u.Info()&types.IsBoolean != 0:
			return []leaf{{kind: lkBool}}
		case u.Info()&types.IsString != 0:
			return []leaf{{kind: lkStr}}
		case u.Info()&types.IsInteger != 0:
			lo, hi := intRange(u)
			return []leaf{{kind: lkInt, lo: lo, hi: hi}}
		case u.Kind() == types.UnsafePointer:
			return []leaf{{kind: lkRef}, {kind: lkOff}}
		case u.Kind() == types.UntypedNil:
			return []leaf{{kind: lkRef}, {kind: lkOff}}
		default: // floats etc: opaque int
			return []leaf{{kind: lkInt}}
		}
	case *types.Pointer:
		return []leaf{{kind: lkRef}, {kind: lkOff}}
	case *types.Slice:
		return []leaf{{kind: lkRef}, {kind: lkOff}, {kind: lkLen}, {kind: lkLen}}
	case *types.Interface:
		return []leaf{{kind: lkTag}, {kind: lkRef}}
	case *types.Signature:
		return []leaf{{kind: lkFn}, {kind: lkRef}}
	case *types.Map, *types.Chan:
		return []leaf{{kind: lkRef}}
	case *types.Struct:
		var ls []leaf
		for i := 0; i < u.NumFields(); i++ {
			ls = append(ls, layout(u.Field(i).Type())...)
		}
		if len(ls) == 0 {
			return nil
		}
		return ls
	case *types.Array:
		el := layout(u.Elem())
		var ls []leaf
		for i := int64(0); i < u.Len(); i++ {
			ls = append(ls, el...)
		}
		return ls
	case *types.Tuple:
		var ls []leaf
		for i := 0; i < u.Len(); i++ {
			ls = append(ls, layout(u.At(i).Type())...)
		}
		return ls
	}
	panic(fmt.Sprintf("layout: unsupported type %v", t))
}

func sizeOf(t types.Type) int64 {
	switch u := t.Underlying().(type) {
	case *types.Array:
		return u.Len() * sizeOf(u.Elem())
	case *types.Struct:
		var n int64
		for i := 0; i < u.NumFields(); i++ {
			n += sizeOf(u.Field(i).Type())
		}
		return n
	}
	return int64(len(layout(t)))
}

func fieldOffset(st *types.Struct, idx int) int64 {
	var n int64
	for i := 0; i < idx; i++ {
		n += sizeOf(st.Field(i).Type())
	}
	return n
}

// leafTerm converts between the in-heap Int encoding and register sorts.
func leafSort(l leaf) Sort {
	switch l.kind {
	case lkBool:
		return SBool
	case lkStr:
		return SSeq
	}
	return SInt
}

// flatten a value into leaf terms, in layout order.
func flatten(v Val) []T {
	switch x := v.(type) {
	case VInt:
		return []T{x.T}
	case VBool:
		return []T{x.T}
	case VStr:
		return []T{x.T}
	case VSeq:
		return []T{x.T}
	case VSlice:
		return []T{x.Ref, x.Off, x.Len, x.Cap}
	case VPtr:
		return []T{x.Ref, x.Off}
	case VIface:
		return []T{x.Tag, x.Box}
	case VFunc:
		return []T{x.Id, x.Env}
	case VMap:
		return []T{x.Ref}
	case VStruct:
		var ts []T
		for _, f := range x.F {
			ts = append(ts, flatten(f)...)
		}
		return ts
	case VArr:
		var ts []T
		for _, f := range x.E {
			ts = append(ts, flatten(f)...)
		}
		return ts
	case VTuple:
		var ts []T
		for _, f := range x.E {
			ts = append(ts, flatten(f)...)
		}
		return ts
	case VUnit, nil:
		return nil
	}
	panic(fmt.Sprintf("flatten: %T", v))
}

// unflatten builds a value of type t from leaf terms.
func unflatten(t types.Type, ts []T) (Val, []T) {
	switch u := t.Underlying().(type) {
	case *types.Basic:
		switch {
		case u.Info()&types.IsBoolean != 0:
			return VBool{ts[0]}, ts[1:]
		case u.Info()&types.IsString != 0:
			return VStr{ts[0]}, ts[1:]
		case u.Kind() == types.UnsafePointer || u.Kind() == types.UntypedNil:
			return VPtr{Ref: ts[0], Off: ts[1], Elem: types.Typ[types.Uint8]}, ts[2:]
		default:
			return VInt{ts[0]}, ts[1:]
		}
	case *types.Pointer:
		return VPtr{Ref: ts[0], Off: ts[1], Elem: u.Elem()}, ts[2:]
	case *types.Slice:
		return VSlice{Ref: ts[0], Off: ts[1], Len: ts[2], Cap: ts[3], Elem: u.Elem()}, ts[4:]
	case *types.Interface:
		return VIface{Tag: ts[0], Box: ts[1]}, ts[2:]
	case *types.Signature:
		return VFunc{Id: ts[0], Env: ts[1]}, ts[2:]
	case *types.Map, *types.Chan:
		return VMap{Ref: ts[0]}, ts[1:]
	case *types.Struct:
		s := VStruct{Typ: t}
		for i := 0; i < u.NumFields(); i++ {
			var f Val
			f, ts = unflatten(u.Field(i).Type(), ts)
			s.F = append(s.F, f)
		}
		return s, ts
	case *types.Array:
		a := VArr{Typ: t}
		for i := int64(0); i < u.Len(); i++ {
			var f Val
			f, ts = unflatten(u.Elem(), ts)
			a.E = append(a.E, f)
		}
		return a, ts
	case *types.Tuple:
		tp := VTuple{}
		for i := 0; i < u.Len(); i++ {
			var f Val
			f, ts = unflatten(u.At(i).Type(), ts)
			tp.E = append(tp.E, f)
		}
		return tp, ts
	}
	panic(fmt.Sprintf("unflatten: unsupported type %v", t))
}

// leafFacts returns the well-typedness facts of leaf terms of type t.
func leafFacts(t types.Type, ts []T) T {
	ls := layout(t)
	var fs []T
	for i, l := range ls {
		x := ts[i]
		switch l.kind {
		case lkInt:
			if l.lo != nil {
				if _, ok := isLit(x); ok {
					continue
				}
				fs = append(fs, le(bigNum(l.lo), x), le(x, bigNum(l.hi)))
			}
		case lkRef, lkTag:
			if _, ok := isLit(x); ok {
				continue
			}
			fs = append(fs, ge(x, num(0)))
		case lkOff, lkLen:
			if _, ok := isLit(x); ok {
				continue
			}
			fs = append(fs, ge(x, num(0)), le(x, T{"9223372036854775807", SInt}))
		}
	}
	// slice shape: len <= cap, nil => 0 len
	var walk func(t types.Type, base int) int
	walk = func(t types.Type, base int) int {
		switch u := t.Underlying().(type) {
		case *types.Slice:
			fs = append(fs, le(ts[base+2], ts[base+3]))
			fs = append(fs, implies(eq(ts[base], num(0)), and(eq(ts[base+3], num(0)), eq(ts[base+1], num(0)))))
			return base + 4
		case *types.Struct:
			for i := 0; i < u.NumFields(); i++ {
				base = walk(u.Field(i).Type(), base)
			}
			return base
		case *types.Array:
			for i := int64(0); i < u.Len(); i++ {
				base = walk(u.Elem(), base)
			}
			return base
		case *types.Tuple:
			for i := 0; i < u.Len(); i++ {
				base = walk(u.At(i).Type(), base)
			}
			return base
		case *types.Interface:
			fs = append(fs, implies(eq(ts[base], num(0)), eq(ts[base+1], num(0))))
			return base + 2
		case *types.Pointer:
			fs = append(fs, implies(eq(ts[base], num(0)), eq(ts[base+1], num(0))))
			return base + 2
		}
		return base + len(layout(t))
	}
	walk(t, 0)
	return and(fs...)
}

func zeroLeaves(t types.Type) []T {
	var ts []T
	for _, l := range layout(t) {
		switch l.kind {
		case lkBool:
			ts = append(ts, tFalse)
		case lkStr:
			ts = append(ts, T{"empty", SSeq})
		default:
			ts = append(ts, num(0))
		}
	}
	return ts
}

func zeroVal(t types.Type) Val {
	v, _ := unflatten(t, zeroLeaves(t))
	return v
}

func iteVal(t types.Type, c T, a, b Val) Val {
	fa, fb := flatten(a), flatten(b)
	out := make([]T, len(fa))
	for i := range fa {
		out[i] = ite(c, fa[i], fb[i])
	}
	v, _ := unflatten(t, out)
	return v
}

func boolToInt(b T) T {
	if b.S == "true" {
		return num(1)
	}
	if b.S == "false" {
		return num(0)
	}
	return ite(b, num(1), num(0))
}
func intToBool(i T) T { return not(eq(i, num(0))) }
