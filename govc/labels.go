package main

// Ghost labels for explicit data flow (C09, C13): a flow-insensitive fixpoint
// over the SSA of one function, modular through label contracts.
//
//   mac : data-dependent on an HMAC output (the expected code and its digits)
//   key : data-dependent on the shared secret (base32 text or decoded bytes)
//   usr : data-dependent on the submitted code string
//
// Labels of memory are attached to the root value of the address (allocation,
// parameter, global); a store joins into the root, a load reads the root.

import (
	"go/constant"
	"go/token"
	"go/types"

	"golang.org/x/tools/go/ssa"
)

type label struct{ mac, key, usr, sec bool }

func (a label) join(b label) label {
	return label{mac: a.mac || b.mac || a.sec || b.sec, key: a.key || b.key, usr: a.usr || b.usr}
}
func (a label) secret() bool { return a.mac || a.key || a.sec }

type labelState struct {
	val map[ssa.Value]label
	mem map[ssa.Value]label
}

func (fx *FX) lab(v ssa.Value) label {
	if fx.labels == nil || v == nil {
		return label{}
	}
	l := fx.labels.val[v]
	return l.join(label{})
}

func labelOf(fx *FX, v ssa.Value) label { return fx.lab(v) }

// hooks kept for the executor; the analysis itself is computeLabels.
func (fx *FX) labelCopy(dst ssa.Value, src ssa.Value)            {}
func (fx *FX) labelStore(addr, val ssa.Value)                    {}
func (fx *FX) labelStoreVal(addr, val ssa.Value)                 {}
func (fx *FX) labelLoad(dst ssa.Value, addr ssa.Value)           {}
func (fx *FX) labelJoin(dst ssa.Value, a, b ssa.Value)           {}
func (fx *FX) labelJoinV(dst ssa.Value, a, b ssa.Value)          {}
func (fx *FX) labelJoinInto(obj ssa.Value, src ssa.Value)        {}
func (fx *FX) labelReturn(r *ssa.Return)                         {}
func (fx *FX) labelCall(v ssa.Value, callee *ssa.Function, c *ssa.CallCommon) {}
func (fx *FX) labelCallDefault(v ssa.Value, c *ssa.CallCommon)   {}
func (fx *FX) labelPure(v ssa.Value, p *ssa.Parameter)           {}
func (fx *FX) labelSet(v ssa.Value, l label)                     {}
func (fx *FX) labelVarargs(c *CallCtx)                           {}

// contract-declared labels: "label <param|result> mac|key|usr ..."
type LabelDecl struct {
	Params  map[string]label
	Results map[int]label
	ResultsDeclared bool
}

func (u *Unit) labelDecl(fn *ssa.Function) *LabelDecl {
	fc := u.contractOf(fn)
	if fc == nil || fc.Labels == nil {
		return nil
	}
	return fc.Labels
}

func (fx *FX) computeLabels() {
	fn := fx.fn
	ls := &labelState{val: map[ssa.Value]label{}, mem: map[ssa.Value]label{}}
	fx.labels = ls
	if ld := fx.u.labelDecl(fn); ld != nil {
		for i, p := range fn.Params {
			name := p.Name()
			if fx.fc != nil && i < len(fx.fc.Params) {
				name = fx.fc.Params[i]
			}
			if l, ok := ld.Params[name]; ok {
				ls.val[p] = l
				ls.mem[p] = l
			}
		}
		for _, fv := range fn.FreeVars {
			if l, ok := ld.Params[fv.Name()]; ok {
				ls.val[fv] = l
				ls.mem[fv] = l
			}
		}
	}
	// defaults by convention: a parameter named secret (or a struct with a Secret field) carries the
	// shared secret, one named code the submitted code; a function-typed parameter may return anything
	// secret-derived unless the contract declares it clean
	for _, p := range fn.Params {
		if _, declared := ls.val[p]; declared {
			continue
		}
		switch {
		case p.Name() == "secret" || p.Name() == "secretBuf" || p.Name() == "secretStr":
			ls.val[p], ls.mem[p] = label{key: true}, label{key: true}
		case p.Name() == "code":
			ls.val[p], ls.mem[p] = label{usr: true}, label{usr: true}
		default:
			if _, isFn := p.Type().Underlying().(*types.Signature); isFn {
				ls.val[p] = label{mac: true, key: true}
			}
			if st, ok := p.Type().Underlying().(*types.Struct); ok {
				for i := 0; i < st.NumFields(); i++ {
					if st.Field(i).Name() == "Secret" {
						ls.val[p], ls.mem[p] = label{key: true}, label{key: true}
					}
				}
			}
		}
	}
	for _, fv := range fn.FreeVars {
		if _, declared := ls.val[fv]; declared {
			continue
		}
		switch fv.Name() {
		case "secret", "secretBuf":
			ls.val[fv], ls.mem[fv] = label{key: true}, label{key: true}
		case "code":
			ls.val[fv], ls.mem[fv] = label{usr: true}, label{usr: true}
		}
	}
	for i, p := range fn.Params {
		if i < len(fx.presetLabels) {
			ls.val[p] = ls.val[p].join(fx.presetLabels[i])
			ls.mem[p] = ls.mem[p].join(fx.presetLabels[i])
		}
	}
	var codeRefs []*ssa.DebugRef
	// the same convention for local variables (bindings that read their value from outside the function, as the
	// WebAssembly binding does from its JS arguments): a local named secret/secretBuf holds the secret, one named code the submitted code
	for _, b := range fn.Blocks {
		for _, in := range b.Instrs {
			if d, ok := in.(*ssa.DebugRef); ok && d.X != nil && d.Object() != nil {
				if _, isConst := d.X.(*ssa.Const); isConst {
					continue
				}
				var l label
				switch d.Object().Name() {
				case "secret", "secretBuf", "secretStr":
					l = label{key: true}
				case "code":
					// decided after the first fixpoint: only a local that is not itself derived from the secret
					// (a generated code is often called code too) is the submitted code
					// (submitted codes are text: an integer local called code, as in truncate, is not one)
					if isTextType(d.X.Type(), d.IsAddr) {
						codeRefs = append(codeRefs, d)
					}
					continue
				default:
					continue
				}
				if d.IsAddr {
					ls.mem[rootOf(d.X)] = ls.mem[rootOf(d.X)].join(l)
				} else {
					ls.val[d.X] = ls.val[d.X].join(l)
					switch d.X.Type().Underlying().(type) {
					case *types.Slice, *types.Pointer:
						ls.mem[rootOf(d.X)] = ls.mem[rootOf(d.X)].join(l)
					}
				}
			}
		}
	}
	get := func(v ssa.Value) label {
		if v == nil {
			return label{}
		}
		return ls.val[v]
	}
	changed := true
	errT, _ := types.Universe.Lookup("error").Type().(*types.Named)
	set := func(v ssa.Value, l label) {
		// values of type error are clean: every construction of an error text in the unit carries its own
		// taint:error obligation, and library errors are assumed not to embed caller secrets
		if v != nil {
			if n, ok := v.Type().(*types.Named); ok && n == errT {
				return
			}
		}
		l = l.join(label{})
		if ls.val[v] != ls.val[v].join(l) {
			ls.val[v] = ls.val[v].join(l)
			changed = true
		}
	}
	setMem := func(root ssa.Value, l label) {
		l = l.join(label{})
		if ls.mem[root] != ls.mem[root].join(l) {
			ls.mem[root] = ls.mem[root].join(l)
			changed = true
		}
	}
	memOf := func(addr ssa.Value) label {
		r := rootOf(addr)
		l := ls.mem[r]
		// a pointer obtained from a labelled value carries the label; so does a field address labelled by its name
		return l.join(get(r)).join(get(addr)).join(ls.mem[addr])
	}
	fix := func() {
		for iter := 0; changed && iter < 50; iter++ {
			changed = false
			for _, b := range fn.Blocks {
				for _, in := range b.Instrs {
					switch x := in.(type) {
					case *ssa.Phi:
						var l label
						for _, e := range x.Edges {
							l = l.join(get(e))
						}
						set(x, l)
					case *ssa.BinOp:
						set(x, get(x.X).join(get(x.Y)))
					case *ssa.UnOp:
						if x.Op == token.MUL {
							set(x, memOf(x.X))
						} else {
							set(x, get(x.X))
						}
					case *ssa.Convert:
						set(x, get(x.X))
					case *ssa.ChangeType:
						set(x, get(x.X))
					case *ssa.ChangeInterface:
						set(x, get(x.X))
					case *ssa.MakeInterface:
						set(x, get(x.X))
					case *ssa.TypeAssert:
						set(x, get(x.X))
					case *ssa.Extract:
						set(x, get(x.Tuple))
					case *ssa.Slice:
						set(x, get(x.X).join(memOf(x.X)))
					case *ssa.IndexAddr:
						set(x, get(x.X))
					case *ssa.FieldAddr:
						set(x, get(x.X))
						if st, ok := x.X.Type().Underlying().(*types.Pointer).Elem().Underlying().(*types.Struct); ok {
							switch st.Field(x.Field).Name() {
							case "Secret", "RawQuery":
								set(x, label{key: true}) // a field named Secret carries the shared secret; so does a URL's raw query
								setMem(x, label{key: true})
							case "Code":
								set(x, label{usr: true})
								setMem(x, label{usr: true})
							}
						}
					case *ssa.Field:
						set(x, get(x.X))
						if st, ok := x.X.Type().Underlying().(*types.Struct); ok {
							switch st.Field(x.Field).Name() {
							case "Secret":
								set(x, label{key: true})
							case "Code":
								set(x, label{usr: true})
							}
						}
					case *ssa.MapUpdate:
						setMem(rootOf(x.Map), get(x.Key).join(get(x.Value)))
					case *ssa.Index:
						set(x, get(x.X))
					case *ssa.Lookup:
						set(x, get(x.X).join(get(x.Index)))
					case *ssa.Store:
						setMem(rootOf(x.Addr), get(x.Val))
					case *ssa.MakeClosure:
						var l label
						for _, bnd := range x.Bindings {
							l = l.join(get(bnd)).join(memOf(bnd))
						}
						set(x, l)
					case *ssa.Range:
						set(x, get(x.X))
					case *ssa.Next:
						set(x, get(x.Iter))
					case ssa.CallInstruction:
						fx.labelCallInstr(x, get, memOf, set, setMem)
					}
				}
			}
		}
	}
	fix()
	for _, d := range codeRefs {
		l := label{usr: true}
		if d.IsAddr {
			r := rootOf(d.X)
			if !ls.mem[r].secret() && !ls.val[r].secret() {
				ls.mem[r] = ls.mem[r].join(l)
				changed = true
			}
		} else if !ls.val[d.X].secret() {
			ls.val[d.X] = ls.val[d.X].join(l)
			switch d.X.Type().Underlying().(type) {
			case *types.Slice, *types.Pointer:
				ls.mem[rootOf(d.X)] = ls.mem[rootOf(d.X)].join(l)
			}
			changed = true
		}
	}
	fix()
}

func (fx *FX) labelCallInstr(ci ssa.CallInstruction, get func(ssa.Value) label, memOf func(ssa.Value) label, set func(ssa.Value, label), setMem func(ssa.Value, label)) {
	c := ci.Common()
	v, _ := ci.(ssa.Value)
	argJoin := func() label {
		var l label
		for _, a := range c.Args {
			l = l.join(get(a))
			switch a.Type().Underlying().(type) {
			case *types.Slice, *types.Pointer:
				l = l.join(memOf(a))
			}
		}
		if c.IsInvoke() {
			l = l.join(get(c.Value)).join(memOf(c.Value))
		} else if _, isFn := c.Value.(*ssa.Function); !isFn {
			if _, isB := c.Value.(*ssa.Builtin); !isB {
				l = l.join(get(c.Value))
			}
		}
		return l
	}
	if bi, ok := c.Value.(*ssa.Builtin); ok {
		switch bi.Name() {
		case "len", "cap":
			if v != nil {
				set(v, label{}) // lengths are public
			}
			return
		case "append":
			l := argJoin()
			if v != nil {
				set(v, l)
			}
			setMem(rootOf(c.Args[0]), l)
			return
		case "copy":
			setMem(rootOf(c.Args[0]), get(c.Args[1]).join(memOf(c.Args[1])))
			return
		}
		if v != nil {
			set(v, argJoin())
		}
		return
	}
	name := ""
	if callee := c.StaticCallee(); callee != nil {
		name = callee.String()
		if ld := fx.u.labelDecl(callee); ld != nil && ld.ResultsDeclared {
			if v != nil {
				var l label
				for _, rl := range ld.Results {
					l = l.join(rl)
				}
				set(v, l)
			}
			return
		}
	}
	if callee := c.StaticCallee(); callee != nil && v != nil && fx.u.internal(callee) && len(callee.Blocks) > 0 {
		// what the callee's results carry by themselves (an HMAC output computed inside, whatever the labels of the arguments)
		set(v, argJoin().join(fx.u.intrinsicResult(callee)))
		return
	}
	if c.IsInvoke() {
		name = "invoke " + c.Value.Type().String() + "." + c.Method.Name()
	}
	switch name {
	case "invoke hash.Hash.Sum":
		if v != nil {
			set(v, label{mac: true})
		}
		return
	case "invoke hash.Hash.Write":
		setMem(rootOf(c.Value), get(c.Args[0]).join(memOf(c.Args[0])))
		return
	case "crypto/subtle.ConstantTimeCompare":
		if v != nil {
			set(v, label{}) // declassification point
		}
		return
	case "(encoding/binary.bigEndian).PutUint64":
		setMem(rootOf(c.Args[1]), get(c.Args[2]))
		return
	case "(*sync.Pool).Get", "(*sync.Pool).Put", "(time.Time).Unix":
		return
	case "(*net/url.URL).String", "(*net/url.URL).Redacted", "(*net/url.URL).RequestURI", "(*net/url.URL).Query", "(*net/url.URL).MarshalBinary":
		// an otpauth URL carries the shared secret in its query (Redacted hides only the userinfo password)
		if v != nil {
			set(v, argJoin().join(label{key: true}))
		}
		return
	case "(net/url.Values).Get":
		// query parameters are labelled per name: only the one called secret is the secret
		if v != nil {
			if k, ok := c.Args[1].(*ssa.Const); ok && k.Value != nil && constant.StringVal(k.Value) != "secret" {
				set(v, label{})
			} else {
				set(v, argJoin())
			}
		}
		return
	}
	if v != nil {
		l := argJoin()
		if fx.readsGlobalState(c) {
			// the result of an unmodelled external call on (the address of) a package-level variable — an atomic
			// pointer, a sync.Map, a cache — is of unknown provenance: it may hold anything the program stored there
			// earlier, including a code that was accepted, i.e. the expected code (seed C09-h). Conservatively mac.
			l = l.join(label{mac: true})
			setMem(v, l)
		}
		set(v, l)
	}
}

// readsGlobalState: a call to a function outside the unit that receives the address of a package-level variable.
func (fx *FX) readsGlobalState(c *ssa.CallCommon) bool {
	if callee := c.StaticCallee(); callee != nil && fx.u.internal(callee) {
		return false
	}
	for _, a := range c.Args {
		if _, isG := rootOf(a).(*ssa.Global); isG {
			if _, isP := a.Type().Underlying().(*types.Pointer); isP {
				return true
			}
		}
	}
	return false
}

// ---------------------------------------------------------------------------
// obligations

func (fx *FX) trivial(kind, label string, holds bool, pos token.Pos, src string) {
	goal := tTrue
	if !holds {
		goal = tFalse
	}
	fx.obligeTrivial(kind, label, goal, pos, src)
}

// compareCheck: an early-exit comparison (==, !=, <, strings.HasPrefix, ...) must not
// have a secret-derived operand on one side and caller-supplied code data on the other.
func (fx *FX) compareCheck(st *State, at ssa.Value, a, b ssa.Value) {
	la, lb := fx.lab(a), fx.lab(b)
	bad := (la.secret() && lb.usr) || (la.usr && lb.secret())
	var pos token.Pos
	if in, ok := at.(ssa.Instruction); ok {
		pos = in.Pos()
	}
	fx.trivial("taint:compare", "", !bad, pos, "early-exit comparison of secret-derived data with the submitted code")
}

func (fx *FX) byteCompareCheck(st *State, x *ssa.BinOp) {
	// integer/byte comparisons: only those whose operands carry both kinds of label matter
	la, lb := fx.lab(x.X), fx.lab(x.Y)
	if !(la.secret() || lb.secret()) || !(la.usr || lb.usr) {
		return
	}
	bad := (la.secret() && lb.usr) || (la.usr && lb.secret())
	// a value that already mixes both (e.g. an accumulated XOR of the two) may be tested once at the end, as a
	// constant-time comparison does, but not inside a loop, where the test decides whether more bytes are looked at
	mixed := (la.secret() && la.usr) || (lb.secret() && lb.usr)
	if mixed && blockInLoop(x.Block()) {
		bad = true
	}
	fx.trivial("taint:compare", "", !bad, x.Pos(), "early-exit comparison of secret-derived bytes with the submitted code")
}

// blockInLoop: the block lies on a cycle of its function's control-flow graph.
func blockInLoop(b *ssa.BasicBlock) bool {
	seen := map[*ssa.BasicBlock]bool{}
	var walk func(c *ssa.BasicBlock) bool
	walk = func(c *ssa.BasicBlock) bool {
		for _, s := range c.Succs {
			if s == b {
				return true
			}
			if !seen[s] {
				seen[s] = true
				if walk(s) {
					return true
				}
			}
		}
		return false
	}
	return walk(b)
}

// calleeCompareScan: a contract-less in-unit function that receives secret-derived and caller-supplied data together
// (and is not subtle.ConstantTimeCompare) is scanned with those labels on its parameters; an early-exit comparison
// inside it is reported at the call site.
func (fx *FX) calleeCompareScan(callee *ssa.Function, c *ssa.CallCommon, pos token.Pos, depth int) {
	if fx.labels == nil || callee == nil || len(callee.Blocks) == 0 || depth > 3 || !fx.u.internal(callee) {
		return
	}
	if ld := fx.u.labelDecl(callee); ld != nil && len(ld.Params) > 0 {
		return // analysed on its own account under its declared labels
	}
	var ls []label
	var all label
	for _, a := range c.Args {
		l := fx.lab(a)
		switch a.Type().Underlying().(type) {
		case *types.Slice, *types.Pointer:
			l = l.join(fx.labMem(a))
		}
		ls = append(ls, l)
		all = all.join(l)
	}
	if !(all.secret() && all.usr) {
		return
	}
	tmp := &FX{u: fx.u, fn: callee, fc: fx.u.contractOf(callee), presetLabels: ls}
	tmp.computeLabels()
	for _, b := range callee.Blocks {
		for _, in := range b.Instrs {
			switch x := in.(type) {
			case *ssa.BinOp:
				switch x.Op {
				case token.EQL, token.NEQ, token.LSS, token.LEQ, token.GTR, token.GEQ:
					la, lb := tmp.lab(x.X), tmp.lab(x.Y)
					bad := (la.secret() && lb.usr) || (la.usr && lb.secret())
					if ((la.secret() && la.usr) || (lb.secret() && lb.usr)) && blockInLoop(b) {
						bad = true
					}
					if bad {
						fx.trivial("taint:compare", "", false, pos, "the callee "+callee.Name()+" compares secret-derived data with the submitted code with an early exit")
						return
					}
				}
			case ssa.CallInstruction:
				if cal := x.Common().StaticCallee(); cal != nil && cal != callee {
					tmp.calleeCompareScan(cal, x.Common(), pos, depth+1)
					if len(tmp.obls) > 0 {
						fx.obls = append(fx.obls, tmp.obls...)
						tmp.obls = nil
						return
					}
				}
			}
		}
	}
}

// mapCompareCheck: a map lookup compares its key with the stored keys by an early-exit equality: a lookup
// keyed by the submitted code in a map that holds secret-derived keys (or the converse) is a comparison.
func (fx *FX) mapCompareCheck(st *State, x *ssa.Lookup) {
	if fx.labels == nil {
		return
	}
	lk := fx.lab(x.Index)
	lm := fx.labMem(x.X).join(fx.lab(x.X))
	if !(lk.usr || lk.secret()) || !(lm.usr || lm.secret()) {
		return
	}
	bad := (lk.usr && lm.secret()) || (lk.secret() && lm.usr)
	fx.trivial("taint:compare", "", !bad, x.Pos(), "map lookup keyed by the submitted code in a map of secret-derived keys (or the converse)")
}

// ctCompare: subtle.ConstantTimeCompare is the sanctioned meeting point of secret-derived and
// caller-supplied data. (For operands of different length it returns at once, which reveals only
// the public length; the property asks for no early exit on content, so no length obligation.)
func (fx *FX) ctCompare(st *State, c *CallCtx) {}

func (fx *FX) labMem(v ssa.Value) label {
	if fx.labels == nil {
		return label{}
	}
	r := rootOf(v)
	return fx.labels.mem[r].join(fx.labels.val[r])
}

// errorText: no secret-derived value may flow into an error text.
func (fx *FX) errorText(st *State, c *CallCtx) {
	var l label
	for _, a := range c.C.Args {
		l = l.join(fx.lab(a)).join(fx.labMem(a))
	}
	fx.trivial("taint:error", "", !l.secret(), c.Pos, "error text built from secret-derived data")
}

// computeLabelsInline: an inlined body shares the caller's label state; parameters take the labels of the arguments.
func (fx *FX) computeLabelsInline(caller *FX) {
	if caller.labels == nil {
		return
	}
	fx.labels = caller.labels
}

// intrinsicResult: the labels the results of an in-unit function carry under the default labelling of its own
// parameters (memoised; a recursive cycle contributes nothing).
func (u *Unit) intrinsicResult(fn *ssa.Function) label {
	if u.intrinsic == nil {
		u.intrinsic = map[*ssa.Function]*label{}
	}
	if l, ok := u.intrinsic[fn]; ok {
		if l == nil {
			return label{}
		}
		return *l
	}
	u.intrinsic[fn] = nil
	tmp := &FX{u: u, fn: fn, fc: u.contractOf(fn)}
	tmp.computeLabels()
	var l label
	for _, b := range fn.Blocks {
		for _, in := range b.Instrs {
			if r, ok := in.(*ssa.Return); ok {
				for _, x := range r.Results {
					l = l.join(tmp.labels.val[x])
				}
			}
		}
	}
	u.intrinsic[fn] = &l
	return l
}

// isTextType: string or []byte (or, for an address, a pointer to one of them).
func isTextType(t types.Type, addr bool) bool {
	if addr {
		if p, ok := t.Underlying().(*types.Pointer); ok {
			t = p.Elem()
		}
	}
	switch u := t.Underlying().(type) {
	case *types.Basic:
		return u.Info()&types.IsString != 0
	case *types.Slice:
		if b, ok := u.Elem().Underlying().(*types.Basic); ok {
			return b.Kind() == types.Uint8
		}
	}
	return false
}
