package main

// Instruction semantics.

import (
	"fmt"
	"go/ast"
	"go/token"
	"go/types"
	"math/big"

	"golang.org/x/tools/go/ssa"
)

func (fx *FX) set(v ssa.Value, x Val) {
	fx.vals[v] = fx.defVal(v.Name(), v.Type(), x)
}

func (fx *FX) execInstr(st *State, in ssa.Instruction) {
	switch x := in.(type) {
	case *ssa.DebugRef:
		if id, ok := x.Expr.(*ast.Ident); ok {
			if old, dup := fx.names[id.Name]; !dup {
				fx.names[id.Name] = x.X
			} else if _, oldConst := old.(*ssa.Const); oldConst {
				if _, newConst := x.X.(*ssa.Const); !newConst {
					fx.names[id.Name] = x.X
				}
			}
			if !x.IsAddr {
				if _, isParam := x.X.(*ssa.Parameter); !isParam {
					if _, have := fx.vals[x.X]; have {
						fx.bindName(st, id.Name, x.X)
					}
				}
			}
		}
	case *ssa.Alloc:
		elem := x.Type().(*types.Pointer).Elem()
		r := fx.allocObj(st, x.Comment, elem)
		fx.vals[x] = VPtr{Ref: r, Off: num(0), Elem: elem}
		if fx.privateAlloc(x) {
			st.Priv[x] = [2]T{st.H, st.Hs}
			fx.privByRef[r.S] = x
			fx.privStore(st, x, num(0), zeroLeaves(elem))
		}
		if x.Comment != "" {
			if _, dup := fx.names[x.Comment]; !dup {
				fx.names[x.Comment] = x
			}
		}
	case *ssa.MakeSlice:
		l, c := fx.intT(x.Len), fx.intT(x.Cap)
		fx.oblige("nopanic:makeslice", "", st.PC, and(le(num(0), l), le(l, c)), x.Pos(), "make length")
		r := fx.allocObj(st, "mk", x.Type().Underlying().(*types.Slice).Elem())
		fx.vals[x] = VSlice{Ref: r, Off: num(0), Len: l, Cap: c, Elem: x.Type().Underlying().(*types.Slice).Elem()}
	case *ssa.MakeMap:
		r := fx.allocObj(st, "map", nil)
		fx.vals[x] = VMap{Ref: r}
		fx.u.mapMake(fx, st, r, x)
	case *ssa.MakeInterface:
		box := fx.allocObj(st, "box", nil)
		fx.storeLeaves(st, box, num(0), x.X.Type(), flatten(fx.val(x.X)))
		fx.vals[x] = VIface{Tag: num(fx.u.typeTag(x.X.Type())), Box: box}
		fx.labelCopy(x, x.X)
	case *ssa.MakeClosure:
		env := fx.allocObj(st, "env", nil)
		off := int64(0)
		for _, b := range x.Bindings {
			fx.storeLeaves(st, env, num(off), b.Type(), flatten(fx.val(b)))
			off += sizeOf(b.Type())
		}
		fx.vals[x] = VFunc{Id: num(fx.u.fnID(x.Fn.(*ssa.Function))), Env: env}
	case *ssa.FieldAddr:
		p := fx.val(x.X).(VPtr)
		fx.nilCheck(st, p.Ref, x.Pos(), "field address")
		stt := x.X.Type().Underlying().(*types.Pointer).Elem().Underlying().(*types.Struct)
		fx.vals[x] = VPtr{Ref: p.Ref, Off: fx.def(x.Name(), add(p.Off, num(fieldOffset(stt, x.Field)))), Elem: stt.Field(x.Field).Type()}
	case *ssa.Field:
		s := fx.val(x.X).(VStruct)
		fx.vals[x] = s.F[x.Field]
	case *ssa.IndexAddr:
		idx := fx.intT(x.Index)
		switch b := fx.val(x.X).(type) {
		case VSlice:
			fx.oblige("nopanic:index", "", st.PC, and(le(num(0), idx), lt(idx, b.Len)), x.Pos(), "slice index")
			esz := sizeOf(b.Elem)
			fx.vals[x] = VPtr{Ref: b.Ref, Off: fx.def(x.Name(), add(b.Off, mul(idx, num(esz)))), Elem: b.Elem}
			fx.nonNil[b.Ref.S] = true // index in range implies non-nil backing
		case VPtr:
			at := x.X.Type().Underlying().(*types.Pointer).Elem().Underlying().(*types.Array)
			fx.nilCheck(st, b.Ref, x.Pos(), "array pointer")
			fx.oblige("nopanic:index", "", st.PC, and(le(num(0), idx), lt(idx, num(at.Len()))), x.Pos(), "array index")
			esz := sizeOf(at.Elem())
			fx.vals[x] = VPtr{Ref: b.Ref, Off: fx.def(x.Name(), add(b.Off, mul(idx, num(esz)))), Elem: at.Elem()}
		default:
			fx.unsupported(st, in)
		}
	case *ssa.Index:
		switch b := fx.val(x.X).(type) {
		case VStr:
			idx := fx.intT(x.Index)
			fx.oblige("nopanic:index", "", st.PC, and(le(num(0), idx), lt(idx, app(SInt, "len", b.T))), x.Pos(), "string index")
			r := fx.def(x.Name(), app(SInt, "at", b.T, idx))
			fx.setBounds(r, bigZero, big.NewInt(255))
			fx.assume(st.PC, and(le(num(0), r), le(r, num(255))))
			fx.vals[x] = VInt{r}
		case VArr:
			idx := fx.intT(x.Index)
			fx.oblige("nopanic:index", "", st.PC, and(le(num(0), idx), lt(idx, num(int64(len(b.E))))), x.Pos(), "array index")
			var v Val
			for i := len(b.E) - 1; i >= 0; i-- {
				if v == nil {
					v = b.E[i]
				} else {
					v = iteVal(x.Type(), eq(idx, num(int64(i))), b.E[i], v)
				}
			}
			fx.set(x, v)
		default:
			fx.unsupported(st, in)
		}
	case *ssa.Lookup:
		switch b := fx.val(x.X).(type) {
		case VStr:
			idx := fx.intT(x.Index)
			fx.oblige("nopanic:index", "", st.PC, and(le(num(0), idx), lt(idx, app(SInt, "len", b.T))), x.Pos(), "string index")
			r := fx.def(x.Name(), app(SInt, "at", b.T, idx))
			fx.setBounds(r, bigZero, big.NewInt(255))
			fx.assume(st.PC, and(le(num(0), r), le(r, num(255))))
			fx.vals[x] = VInt{r}
			fx.labelCopy(x, x.X)
		case VMap:
			fx.mapCompareCheck(st, x)
			fx.u.mapLookup(fx, st, b, x)
		default:
			fx.unsupported(st, in)
		}
	case *ssa.Slice:
		fx.execSlice(st, x)
	case *ssa.Store:
		p := fx.val(x.Addr).(VPtr)
		fx.nilCheck(st, p.Ref, x.Pos(), "store")
		fx.writeCheck(st, p.Ref, rootOf(x.Addr), x.Pos(), "store")
		fx.storeLeaves(st, p.Ref, p.Off, x.Val.Type(), flatten(fx.val(x.Val)))
		if a := fx.privRoot(x.Addr); a != nil {
			st.Priv[a] = [2]T{st.H, st.Hs}
			fx.privStore(st, a, p.Off, flatten(fx.val(x.Val)))
		}
	case *ssa.UnOp:
		fx.execUnOp(st, x)
	case *ssa.BinOp:
		fx.execBinOp(st, x)
	case *ssa.Convert:
		fx.execConvert(st, x)
	case *ssa.ChangeType:
		v := fx.val(x.X)
		// re-type pointer/slice element types
		v2, _ := unflatten(x.Type(), flatten(v))
		fx.vals[x] = v2
		fx.labelCopy(x, x.X)
	case *ssa.ChangeInterface:
		fx.vals[x] = fx.val(x.X)
		fx.labelCopy(x, x.X)
	case *ssa.TypeAssert:
		fx.execTypeAssert(st, x)
	case *ssa.Extract:
		t := fx.val(x.Tuple).(VTuple)
		fx.vals[x] = t.E[x.Index]
		fx.labelCopy(x, x.Tuple)
	case *ssa.Call:
		r := fx.execCall(st, x, x.Common(), x.Pos())
		if r != nil {
			fx.vals[x] = r
		} else {
			fx.vals[x] = VUnit{}
		}
	case *ssa.Defer:
		d := deferred{call: x.Common(), pos: x.Pos()}
		for _, a := range x.Common().Args {
			d.args = append(d.args, fx.val(a))
		}
		if !x.Common().IsInvoke() {
			if _, isB := x.Common().Value.(*ssa.Builtin); !isB {
				d.recv = fx.val(x.Common().Value)
			}
		}
		nd := append([]deferred{}, fx.curDefers...)
		fx.curDefers = append(nd, d)
		if fx.inLoop[fx.curBlock] != nil {
			fx.note("defer inside a loop is not supported")
			fx.oblige("unsupported", "defer-in-loop", st.PC, tFalse, x.Pos(), "defer in loop")
		}
	case *ssa.RunDefers:
		for i := len(fx.curDefers) - 1; i >= 0; i-- {
			d := fx.curDefers[i]
			fx.execCallWith(st, nil, d.call, d.pos, d.args, true)
		}
	case *ssa.Return:
		fx.execReturn(st, x)
	case *ssa.If, *ssa.Jump:
	case *ssa.Panic:
		fx.oblige("nopanic:explicit", "", st.PC, tFalse, x.Pos(), "explicit panic")
		st.PC = tFalse
	case *ssa.Range:
		fx.vals[x] = fx.val(x.X)
	case *ssa.Next:
		fx.execNext(st, x)
	case *ssa.MapUpdate:
		m := fx.val(x.Map).(VMap)
		fx.nilCheck(st, m.Ref, x.Pos(), "map update")
		fx.u.mapUpdate(fx, st, m, x)
	case *ssa.Phi:
	default:
		fx.unsupported(st, in)
	}
}

func (fx *FX) unsupported(st *State, in ssa.Instruction) {
	fx.note("unsupported instruction abstracted: %T %s", in, in.String())
	if v, ok := in.(ssa.Value); ok {
		fx.vals[v] = fx.havoc("abs_"+v.Name(), v.Type(), tTrue)
	}
}

func (fx *FX) execSlice(st *State, x *ssa.Slice) {
	var lo, hi, mx T
	haveLo, haveHi, haveMax := x.Low != nil, x.High != nil, x.Max != nil
	if haveLo {
		lo = fx.intT(x.Low)
	} else {
		lo = num(0)
	}
	if haveHi {
		hi = fx.intT(x.High)
	}
	if haveMax {
		mx = fx.intT(x.Max)
	}
	switch b := fx.val(x.X).(type) {
	case VSlice:
		if !haveHi {
			hi = b.Len
		}
		top := b.Cap
		if haveMax {
			fx.oblige("nopanic:slice", "", st.PC, and(le(hi, mx), le(mx, b.Cap)), x.Pos(), "slice max")
			top = mx
		}
		fx.oblige("nopanic:slice", "", st.PC, and(le(num(0), lo), le(lo, hi), le(hi, top)), x.Pos(), "slice bounds")
		esz := sizeOf(b.Elem)
		fx.set(x, VSlice{Ref: b.Ref, Off: add(b.Off, mul(lo, num(esz))), Len: sub(hi, lo), Cap: sub(top, lo), Elem: b.Elem})
		fx.labelCopy(x, x.X)
	case VStr:
		n := app(SInt, "len", b.T)
		if !haveHi {
			hi = n
		}
		fx.oblige("nopanic:slice", "", st.PC, and(le(num(0), lo), le(lo, hi), le(hi, n)), x.Pos(), "string slice bounds")
		fx.set(x, VStr{app(SSeq, "sub", b.T, lo, hi)})
		fx.labelCopy(x, x.X)
	case VPtr:
		at := x.X.Type().Underlying().(*types.Pointer).Elem().Underlying().(*types.Array)
		fx.nilCheck(st, b.Ref, x.Pos(), "array pointer slice")
		n := num(at.Len())
		if !haveHi {
			hi = n
		}
		top := n
		if haveMax {
			fx.oblige("nopanic:slice", "", st.PC, and(le(hi, mx), le(mx, n)), x.Pos(), "slice max")
			top = mx
		}
		fx.oblige("nopanic:slice", "", st.PC, and(le(num(0), lo), le(lo, hi), le(hi, top)), x.Pos(), "slice bounds")
		esz := sizeOf(at.Elem())
		fx.set(x, VSlice{Ref: b.Ref, Off: add(b.Off, mul(lo, num(esz))), Len: sub(hi, lo), Cap: sub(top, lo), Elem: at.Elem()})
		fx.labelCopy(x, x.X)
	default:
		fx.unsupported(st, x)
	}
}

func (fx *FX) execUnOp(st *State, x *ssa.UnOp) {
	switch x.Op {
	case token.MUL: // load
		p := fx.val(x.X).(VPtr)
		fx.nilCheck(st, p.Ref, x.Pos(), "load")
		fx.readCheck(st, p.Ref, x.Pos(), "load")
		if _, isG := rootOf(x.X).(*ssa.Global); isG && fx.fn.Name() != "init" {
			// package-level objects are never written outside init (own:global-write is an obligation of
			// every store), so their contents can be read from the entry heap
			s0 := st.clone()
			s0.H, s0.Hs = fx.entry.H, fx.entry.Hs
			fx.vals[x] = fx.load(s0, p, x.Type(), x.Name())
		} else if a := fx.privRoot(x.X); a != nil {
			if ts, ok := fx.privLoad(st, a, p.Off, len(layout(x.Type()))); ok {
				fx.vals[x], _ = unflatten(x.Type(), ts)
			} else if v, ok := st.Priv[a]; ok {
				s0 := st.clone()
				s0.H, s0.Hs = v[0], v[1]
				fx.vals[x] = fx.load(s0, p, x.Type(), x.Name())
			} else {
				fx.vals[x] = fx.load(st, p, x.Type(), x.Name())
			}
		} else {
			fx.vals[x] = fx.load(st, p, x.Type(), x.Name())
		}
		if g, ok := x.X.(*ssa.Global); ok {
			if o := fx.u.globalObj(g); len(o.slots) == 1 {
				if cr, ok := o.slots[0].(cref); ok && cr.obj != nil {
					if cm, ok := cr.obj.slots0Map(); ok {
						if mv, ok := fx.vals[x].(VMap); ok {
							fx.mapOrigin[mv.Ref.S] = cm
						}
					}
				}
			}
		}
	case token.NOT:
		fx.set(x, VBool{not(fx.boolT(x.X))})
	case token.SUB:
		v := fx.intT(x.X)
		lo, hi := fx.bounds(v)
		var nlo, nhi *big.Int
		if lo != nil {
			nlo, nhi = new(big.Int).Neg(hi), new(big.Int).Neg(lo)
		}
		r := fx.wrapTo(sub(num(0), v), nlo, nhi, x.Type())
		fx.set(x, VInt{r})
		fx.labelCopy(x, x.X)
	case token.XOR:
		v := fx.intT(x.X)
		if isUnsigned(x.Type()) {
			m := new(big.Int).Sub(new(big.Int).Lsh(bigOne, intBits(x.Type())), bigOne)
			fx.set(x, VInt{sub(bigNum(m), v)})
		} else {
			fx.set(x, VInt{sub(num(-1), v)})
		}
		fx.labelCopy(x, x.X)
	default:
		fx.unsupported(st, x)
	}
}

func (fx *FX) execBinOp(st *State, x *ssa.BinOp) {
	a, b := fx.val(x.X), fx.val(x.Y)
	fx.labelJoin(x, x.X, x.Y)
	if x.Op == token.EQL || x.Op == token.NEQ {
		// equality of struct or array values is a field-by-field early-exit comparison (runtime memequal / strequal):
		// when a field is text it is a comparison site like a string == (seed C09-h)
		switch x.X.Type().Underlying().(type) {
		case *types.Struct, *types.Array:
			fx.compareCheck(st, x, x.X, x.Y)
		}
	}
	switch av := a.(type) {
	case VBool:
		bv := b.(VBool)
		switch x.Op {
		case token.EQL:
			fx.set(x, VBool{eq(av.T, bv.T)})
		case token.NEQ:
			fx.set(x, VBool{not(eq(av.T, bv.T))})
		case token.AND, token.LAND:
			fx.set(x, VBool{and(av.T, bv.T)})
		case token.OR, token.LOR:
			fx.set(x, VBool{or(av.T, bv.T)})
		default:
			fx.unsupported(st, x)
		}
		return
	case VStr:
		bv := b.(VStr)
		switch x.Op {
		case token.ADD:
			fx.set(x, VStr{app(SSeq, "cat", av.T, bv.T)})
		case token.EQL:
			fx.compareCheck(st, x, x.X, x.Y)
			fx.set(x, VBool{eq(av.T, bv.T)})
		case token.NEQ:
			fx.compareCheck(st, x, x.X, x.Y)
			fx.set(x, VBool{not(eq(av.T, bv.T))})
		default:
			fx.compareCheck(st, x, x.X, x.Y)
			fx.note("string ordering comparison abstracted")
			fx.vals[x] = fx.havoc("strcmp", x.Type(), tTrue)
		}
		return
	case VPtr:
		bv := b.(VPtr)
		e := and(eq(av.Ref, bv.Ref), eq(av.Off, bv.Off))
		if x.Op == token.NEQ {
			e = not(e)
		}
		fx.set(x, VBool{e})
		return
	case VIface:
		bv := b.(VIface)
		// interface equality: identical dynamic type and identical box (sound for nil tests and sentinel errors)
		var e T
		if isNilConst(x.Y) {
			e = eq(av.Tag, num(0))
		} else if isNilConst(x.X) {
			e = eq(bv.Tag, num(0))
		} else {
			e = and(eq(av.Tag, bv.Tag), eq(av.Box, bv.Box))
			fx.note("interface comparison modelled as identity of dynamic type and box")
		}
		if x.Op == token.NEQ {
			e = not(e)
		}
		fx.set(x, VBool{e})
		return
	case VSlice:
		bv := b.(VSlice)
		var e T
		if isNilConst(x.Y) {
			e = eq(av.Ref, num(0))
		} else {
			e = eq(bv.Ref, num(0))
		}
		if x.Op == token.NEQ {
			e = not(e)
		}
		fx.set(x, VBool{e})
		return
	case VMap:
		bv := b.(VMap)
		e := eq(av.Ref, bv.Ref)
		if x.Op == token.NEQ {
			e = not(e)
		}
		fx.set(x, VBool{e})
		return
	case VFunc:
		bv := b.(VFunc)
		e := eq(av.Id, bv.Id)
		if x.Op == token.NEQ {
			e = not(e)
		}
		fx.set(x, VBool{e})
		return
	case VInt:
		bv, ok := b.(VInt)
		if !ok {
			fx.unsupported(st, x)
			return
		}
		fx.intBinOp(st, x, av.T, bv.T)
		return
	case VStruct, VArr:
		// equality of comparable struct/array values: all leaves equal (strings by content, pointers by identity,
		// interfaces by dynamic type and box as above); blank fields are not expected in the units
		if x.Op == token.EQL || x.Op == token.NEQ {
			at, bt := flatten(a), flatten(b)
			if len(at) == len(bt) && len(at) > 0 {
				e := eq(at[0], bt[0])
				for i := 1; i < len(at); i++ {
					e = and(e, eq(at[i], bt[i]))
				}
				if x.Op == token.NEQ {
					e = not(e)
				}
				fx.set(x, VBool{e})
				return
			}
		}
	}
	fx.unsupported(st, x)
}

func isNilConst(v ssa.Value) bool {
	c, ok := v.(*ssa.Const)
	return ok && c.Value == nil
}

func (fx *FX) intBinOp(st *State, x *ssa.BinOp, a, b T) {
	typ := x.X.Type()
	alo, ahi := fx.bounds(a)
	blo, bhi := fx.bounds(b)
	have := alo != nil && blo != nil
	switch x.Op {
	case token.EQL:
		fx.byteCompareCheck(st, x)
		fx.set(x, VBool{eq(a, b)})
	case token.NEQ:
		fx.byteCompareCheck(st, x)
		fx.set(x, VBool{not(eq(a, b))})
	case token.LSS:
		fx.byteCompareCheck(st, x)
		fx.set(x, VBool{lt(a, b)})
	case token.LEQ:
		fx.byteCompareCheck(st, x)
		fx.set(x, VBool{le(a, b)})
	case token.GTR:
		fx.byteCompareCheck(st, x)
		fx.set(x, VBool{gt(a, b)})
	case token.GEQ:
		fx.byteCompareCheck(st, x)
		fx.set(x, VBool{ge(a, b)})
	case token.ADD:
		var lo, hi *big.Int
		if have {
			lo, hi = new(big.Int).Add(alo, blo), new(big.Int).Add(ahi, bhi)
		}
		r := fx.wrapTo(add(a, b), lo, hi, typ)
		if have {
			// trailing zeros of a sum: min
			if za, zb := fx.tzOf(a), fx.tzOf(b); za > 0 && zb > 0 {
				fx.tz[r.S] = minU(za, zb)
			}
		}
		fx.set(x, VInt{r})
	case token.SUB:
		var lo, hi *big.Int
		if have {
			lo, hi = new(big.Int).Sub(alo, bhi), new(big.Int).Sub(ahi, blo)
		}
		fx.set(x, VInt{fx.wrapTo(sub(a, b), lo, hi, typ)})
	case token.MUL:
		var lo, hi *big.Int
		if have {
			cands := []*big.Int{new(big.Int).Mul(alo, blo), new(big.Int).Mul(alo, bhi), new(big.Int).Mul(ahi, blo), new(big.Int).Mul(ahi, bhi)}
			lo, hi = cands[0], cands[0]
			for _, c := range cands {
				if c.Cmp(lo) < 0 {
					lo = c
				}
				if c.Cmp(hi) > 0 {
					hi = c
				}
			}
		}
		tlo, thi := typeBounds(typ)
		m := mul(a, b)
		if lo != nil && tlo != nil && lo.Cmp(tlo) >= 0 && hi.Cmp(thi) <= 0 {
			fx.setBounds(m, lo, hi)
			fx.set(x, VInt{m})
		} else if isUnsigned(typ) {
			r := emod(m, pow2(intBits(typ)))
			fx.setBounds(r, tlo, thi)
			fx.set(x, VInt{r})
		} else {
			fx.set(x, VInt{fx.wrapTo(m, nil, nil, typ)})
		}
	case token.QUO, token.REM:
		fx.oblige("nopanic:div", "", st.PC, not(eq(b, num(0))), x.Pos(), "division by zero")
		nonneg := alo != nil && alo.Sign() >= 0 && blo != nil && blo.Sign() >= 0
		var r T
		if x.Op == token.QUO {
			if nonneg {
				r = ediv(a, b)
				fx.setBounds(r, bigZero, ahi)
			} else {
				r = tdiv(a, b)
				// int64 MinInt / -1 wraps; model by wrapTo over the doubled range
				r = fx.wrapTo(r, nil, nil, typ)
			}
		} else {
			if nonneg {
				r = emod(a, b)
				hi := ahi
				if bhi != nil && bhi.Cmp(bigOne) >= 0 {
					h2 := new(big.Int).Sub(bhi, bigOne)
					if h2.Cmp(hi) < 0 {
						hi = h2
					}
				}
				fx.setBounds(r, bigZero, hi)
			} else {
				r = tmod(a, b)
				tlo, thi := typeBounds(typ)
				fx.setBounds(r, tlo, thi)
			}
		}
		fx.set(x, VInt{r})
	case token.AND:
		// x & (2^k - 1)
		if k, ok := maskBits(bhi, blo); ok && alo != nil && alo.Sign() >= 0 {
			r := emod(a, pow2(k))
			fx.setBounds(r, bigZero, new(big.Int).Sub(new(big.Int).Lsh(bigOne, k), bigOne))
			fx.set(x, VInt{r})
		} else if k, ok := maskBits(ahi, alo); ok && blo != nil && blo.Sign() >= 0 {
			r := emod(b, pow2(k))
			fx.setBounds(r, bigZero, new(big.Int).Sub(new(big.Int).Lsh(bigOne, k), bigOne))
			fx.set(x, VInt{r})
		} else {
			fx.bitAbstract(st, x, "band", a, b)
		}
	case token.OR:
		// disjoint bit ranges: a has >= k trailing zeros and b < 2^k  ==> a | b == a + b
		if ok := fx.disjoint(a, b); ok {
			r := add(a, b)
			lo, hi := new(big.Int).Add(alo, blo), new(big.Int).Add(ahi, bhi)
			fx.setBounds(r, lo, hi)
			fx.tz[r.S] = minU(fx.tzOf(a), fx.tzOf(b))
			rr := fx.def(x.Name(), r)
			fx.vals[x] = VInt{rr}
		} else {
			fx.bitAbstract(st, x, "bor", a, b)
		}
	case token.SHL:
		if c, ok := isLit(b); ok && c >= 0 && c < 64 {
			var lo, hi *big.Int
			if alo != nil {
				lo, hi = new(big.Int).Lsh(alo, uint(c)), new(big.Int).Lsh(ahi, uint(c))
			}
			m := mul(a, pow2(uint(c)))
			tlo, thi := typeBounds(typ)
			var r T
			if lo != nil && lo.Cmp(tlo) >= 0 && hi.Cmp(thi) <= 0 {
				r = m
				fx.setBounds(r, lo, hi)
			} else if isUnsigned(typ) {
				r = emod(m, pow2(intBits(typ)))
				fx.setBounds(r, tlo, thi)
			} else {
				r = fx.wrapTo(m, nil, nil, typ)
			}
			rr := fx.def(x.Name(), r)
			fx.tz[rr.S] = fx.tzOf(a) + uint(c)
			if b, ok := fx.bnd[r.S]; ok {
				fx.bnd[rr.S] = b
			}
			fx.vals[x] = VInt{rr}
		} else {
			fx.bitAbstract(st, x, "shl", a, b)
		}
	case token.SHR:
		if c, ok := isLit(b); ok && c >= 0 && c < 64 {
			r := ediv(a, pow2(uint(c)))
			if alo != nil {
				fx.setBounds(r, new(big.Int).Rsh(alo, uint(c)), new(big.Int).Rsh(ahi, uint(c)))
			}
			fx.set(x, VInt{r})
		} else {
			fx.bitAbstract(st, x, "shr", a, b)
		}
	default:
		fx.bitAbstract(st, x, "bitop", a, b)
	}
}

func minU(a, b uint) uint {
	if a < b {
		return a
	}
	return b
}

func maskBits(hi, lo *big.Int) (uint, bool) {
	if hi == nil || lo == nil || hi.Cmp(lo) != 0 || hi.Sign() <= 0 {
		return 0, false
	}
	p := new(big.Int).Add(hi, bigOne)
	if p.BitLen() > 0 && new(big.Int).And(p, hi).Sign() == 0 {
		return uint(p.BitLen() - 1), true
	}
	return 0, false
}

func (fx *FX) tzOf(t T) uint {
	if z, ok := fx.tz[t.S]; ok {
		return z
	}
	if lo, hi := fx.bounds(t); lo != nil && lo.Cmp(hi) == 0 && lo.Sign() > 0 {
		return lo.TrailingZeroBits()
	}
	return 0
}

func (fx *FX) disjoint(a, b T) bool {
	alo, ahi := fx.bounds(a)
	blo, bhi := fx.bounds(b)
	if alo == nil || blo == nil || alo.Sign() < 0 || blo.Sign() < 0 {
		return false
	}
	if uint(bhi.BitLen()) <= fx.tzOf(a) || uint(ahi.BitLen()) <= fx.tzOf(b) {
		return true
	}
	return false
}

func (fx *FX) bitAbstract(st *State, x *ssa.BinOp, op string, a, b T) {
	fx.note("bit operation %s abstracted (result unconstrained within its type)", x.Op)
	fx.vals[x] = fx.havoc(op, x.Type(), tTrue)
}

func (fx *FX) execConvert(st *State, x *ssa.Convert) {
	from, to := x.X.Type().Underlying(), x.Type().Underlying()
	v := fx.val(x.X)
	fx.labelCopy(x, x.X)
	switch tv := v.(type) {
	case VInt:
		if tb, ok := to.(*types.Basic); ok {
			if tb.Info()&types.IsInteger != 0 {
				lo, hi := fx.bounds(tv.T)
				r := fx.wrapTo(tv.T, lo, hi, x.Type())
				rr := fx.def(x.Name(), r)
				if z, ok := fx.tz[tv.T.S]; ok {
					fx.tz[rr.S] = z
				}
				fx.vals[x] = VInt{rr}
				return
			}
			if tb.Info()&types.IsString != 0 {
				fx.note("string(int) conversion abstracted")
				fx.vals[x] = fx.havoc("runestr", x.Type(), tTrue)
				return
			}
		}
	case VStr:
		if _, ok := to.(*types.Slice); ok { // []byte(s)
			r := fx.allocObj(st, "bytes", nil)
			n := fx.def("n", app(SInt, "len", tv.T))
			arr := fx.fresh("strbytes", SIArr)
			fx.assume(tTrue, eq(app(SSeq, "view", arr, num(0), n), tv.T))
			st.H = fx.def("H", sto(st.H, r, arr))
			fx.vals[x] = VSlice{Ref: r, Off: num(0), Len: n, Cap: n, Elem: to.(*types.Slice).Elem()}
			return
		}
		if tb, ok := to.(*types.Basic); ok && tb.Info()&types.IsString != 0 {
			fx.vals[x] = v
			return
		}
	case VSlice:
		if tb, ok := to.(*types.Basic); ok && tb.Info()&types.IsString != 0 { // string(b)
			fx.readCheck(st, tv.Ref, x.Pos(), "string(bytes)")
			fx.set(x, VStr{app(SSeq, "view", sel(fx.rH(st, tv.Ref), tv.Ref), tv.Off, tv.Len)})
			return
		}
	case VPtr:
		if _, ok := to.(*types.Pointer); ok {
			fx.vals[x] = VPtr{Ref: tv.Ref, Off: tv.Off, Elem: to.(*types.Pointer).Elem()}
			return
		}
		if tb, ok := to.(*types.Basic); ok && tb.Kind() == types.UnsafePointer {
			fx.vals[x] = tv
			return
		}
	}
	_ = from
	fx.unsupported(st, x)
}

func (fx *FX) execTypeAssert(st *State, x *ssa.TypeAssert) {
	iv := fx.val(x.X).(VIface)
	if _, isIface := x.AssertedType.Underlying().(*types.Interface); isIface {
		// interface-to-interface assertion: succeeds iff non-nil and method set satisfied; abstract
		if x.CommaOk {
			ok := fx.fresh("assertok", SBool)
			fx.assume(tTrue, implies(ok, not(eq(iv.Tag, num(0)))))
			fx.vals[x] = VTuple{E: []Val{iv, VBool{ok}}}
		} else {
			fx.note("interface-to-interface type assertion assumed to succeed for non-nil values")
			fx.oblige("nopanic:assert", "", st.PC, not(eq(iv.Tag, num(0))), x.Pos(), "type assertion")
			fx.vals[x] = iv
		}
		return
	}
	tag := num(fx.u.typeTag(x.AssertedType))
	ok := eq(iv.Tag, tag)
	loaded := fx.load(st, VPtr{Ref: iv.Box, Off: num(0), Elem: x.AssertedType}, x.AssertedType, x.Name())
	fx.labelCopy(x, x.X)
	if x.CommaOk {
		z := zeroVal(x.AssertedType)
		v := iteVal(x.AssertedType, ok, loaded, z)
		fx.vals[x] = VTuple{E: []Val{fx.defVal(x.Name(), x.AssertedType, v), VBool{fx.def(x.Name()+"_ok", ok)}}}
		return
	}
	fx.oblige("nopanic:assert", "", st.PC, ok, x.Pos(), "type assertion to "+x.AssertedType.String())
	fx.vals[x] = loaded
}

func (fx *FX) execNext(st *State, x *ssa.Next) {
	if x.IsString {
		fx.unsupported(st, x)
		return
	}
	// map iteration: an arbitrary number of arbitrary entries of the map
	tup := x.Type().(*types.Tuple)
	ok := fx.fresh("next_ok", SBool)
	var k, v Val
	if tup.At(1).Type() != nil && !isInvalid(tup.At(1).Type()) {
		k = fx.havoc("next_k", tup.At(1).Type(), tTrue)
	} else {
		k = VUnit{}
	}
	if tup.At(2).Type() != nil && !isInvalid(tup.At(2).Type()) {
		v = fx.havoc("next_v", tup.At(2).Type(), tTrue)
	} else {
		v = VUnit{}
	}
	if m, isMap := fx.val(x.Iter).(VMap); isMap {
		fx.u.mapNext(fx, st, m, x, ok, k, v)
	}
	fx.vals[x] = VTuple{E: []Val{VBool{ok}, k, v}}
}

func isInvalid(t types.Type) bool {
	b, ok := t.(*types.Basic)
	return ok && b.Kind() == types.Invalid
}

func (fx *FX) execReturn(st *State, x *ssa.Return) {
	res := make([]Val, len(x.Results))
	for i, r := range x.Results {
		res[i] = fx.val(r)
	}
	if fx.inlinedIn != nil {
		var v Val = VUnit{}
		if len(res) == 1 {
			v = res[0]
		} else if len(res) > 1 {
			v = VTuple{E: res}
		}
		fx.inlineRets = append(fx.inlineRets, inlineRet{st: st.clone(), val: v})
		return
	}
	fx.retCovers = append(fx.retCovers, st.PC)
	// ownership: results must not alias pooled objects; exported results must not alias released ones
	sig := fx.fn.Signature
	for i, r := range x.Results {
		ls := layout(sig.Results().At(i).Type())
		ts := flatten(res[i])
		for j, l := range ls {
			if l.kind == lkRef {
				if _, lit := isLit(ts[j]); lit || fx.knownFresh[ts[j].S] {
					continue
				}
				if st.Pooled.S != fx.entry.Pooled.S {
					fx.oblige("own:result-alias", "", st.PC, not(sel(st.Pooled, ts[j])), x.Pos(), "result "+r.Name()+" must not alias a pooled object")
				}
			}
		}
	}
	if fx.fc != nil {
		env := fx.entryEnv(st)
		env.local = map[string]Val{}
		names := fx.resultNames()
		for i := range res {
			env.local[names[i]] = res[i]
		}
		if len(res) == 1 {
			env.local["result"] = res[0]
		}
		for _, c := range fx.fc.Ensures {
			// vacuity cover per clause: the antecedent of `A ==> B` must be satisfiable at some return
			if b, ok := c.E.(EBin); ok && b.Op == "==>" {
				g := st.PC
				if fx.domainAll.S != "" {
					g = and(g, fx.domain)
					if d, ok := fx.domainFor[c.Label]; ok {
						g = and(g, d)
					}
				}
				if fx.anteCovers == nil {
					fx.anteCovers = map[string][]T{}
				}
				if _, seen := fx.anteCovers[c.Label]; !seen {
					fx.anteOrder = append(fx.anteOrder, c.Label)
				}
				fx.anteCovers[c.Label] = append(fx.anteCovers[c.Label], and(g, fx.hypBool(env, b.X)))
			}
			fx.oblige("post", c.Label, st.PC, fx.goalBool(env, c.E), x.Pos(), c.Src)
		}
	}
	fx.labelReturn(x)
}

func (fx *FX) resultNames() []string {
	sig := fx.fn.Signature
	out := make([]string, sig.Results().Len())
	for i := range out {
		out[i] = fmt.Sprintf("r%d", i)
		if n := sig.Results().At(i).Name(); n != "" && n != "_" {
			out[i] = n
		}
		if fx.fc != nil && i < len(fx.fc.Results) {
			out[i] = fx.fc.Results[i]
		}
	}
	return out
}
