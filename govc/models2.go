package main

// More assumed contracts: strconv, encoding/hex, math/big, strings.Split, crypto/rand, net/url, time.

import (
	"go/types"
	"math/big"

	"golang.org/x/tools/go/ssa"
)

func intRangeFact(t T, typ types.Type) T {
	lo, hi := typeBounds(typ)
	if lo == nil {
		return tTrue
	}
	return and(le(bigNum(lo), t), le(t, bigNum(hi)))
}

func registerMoreModels(u *Unit) {
	u.reg("strconv.ParseUint", "for base 10 and bit size 64: err == nil iff isdec64(s) (s is a decimal numeral of a value < 2^64, no sign, no spaces); on success the value is decval(s), otherwise 0 or the maximum", nil,
		func(fx *FX, st *State, c *CallCtx) Val {
			s := c.Args[0].(VStr).T
			base, _ := isLit(c.Args[1].(VInt).T)
			bits, _ := isLit(c.Args[2].(VInt).T)
			v := fx.fresh("parsed", SInt)
			fx.assume(tTrue, intRangeFact(v, types.Typ[types.Uint64]))
			ok := fx.fresh("parseok", SBool)
			if base == 10 && bits == 64 {
				fx.assume(tTrue, app(SBool, "=", ok, app(SBool, "isdec64", s)))
				fx.assume(tTrue, implies(ok, eq(v, app(SInt, "decval", s))))
			} else {
				fx.note("strconv.ParseUint with base/bit size other than 10/64: result unconstrained")
			}
			_, uhi := typeBounds(types.Typ[types.Uint64])
			fx.setBounds(v, bigZero, uhi)
			return VTuple{E: []Val{VInt{v}, fx.condError(st, ok, "parseuint")}}
		})
	u.reg("strconv.Atoi", "err == nil iff isint(s) (optional sign, decimal digits, value fits int); on success the value is intval(s)", nil,
		func(fx *FX, st *State, c *CallCtx) Val {
			s := c.Args[0].(VStr).T
			v := fx.fresh("atoi", SInt)
			fx.assume(tTrue, intRangeFact(v, types.Typ[types.Int]))
			ok := fx.fresh("atoiok", SBool)
			fx.assume(tTrue, app(SBool, "=", ok, app(SBool, "isint", s)))
			fx.assume(tTrue, implies(ok, eq(v, app(SInt, "intval", s))))
			lo, hi := typeBounds(types.Typ[types.Int])
			fx.setBounds(v, lo, hi)
			return VTuple{E: []Val{VInt{v}, fx.condError(st, ok, "atoi")}}
		})
	u.reg("strconv.FormatUint", "for base 10 returns dec(v), the canonical decimal numeral of v", nil,
		func(fx *FX, st *State, c *CallCtx) Val {
			base, _ := isLit(c.Args[1].(VInt).T)
			if base != 10 {
				fx.note("strconv.FormatUint with base other than 10: result unconstrained")
				return fx.havoc("fmtuint", types.Typ[types.String], tTrue)
			}
			return VStr{app(SSeq, "dec", c.Args[0].(VInt).T)}
		})
	u.reg("encoding/hex.DecodeString", "err == nil iff ishex(s) (even length, hex digits only); on success the result is a fresh slice holding hexdec(s), of length len(s)/2; on failure the result holds the bytes decoded so far", nil,
		func(fx *FX, st *State, c *CallCtx) Val {
			s := c.Args[0].(VStr).T
			ok := fx.def("hexok", app(SBool, "ishex", s))
			content := fx.fresh("hexbytes", SSeq)
			fx.assume(tTrue, implies(ok, eq(content, app(SSeq, "hexdec", s))))
			r := freshBytes(fx, st, content, "hex")
			return VTuple{E: []Val{r, fx.condError(st, ok, "hex")}}
		})
	u.reg("(*math/big.Int).SetString", "for base 10: ok iff isdecbig(s) (optional sign, decimal digits, optional '_' are not accepted for base 10); on success returns the receiver holding bigval(s)", []int{0},
		func(fx *FX, st *State, c *CallCtx) Val {
			z := c.Args[0].(VPtr)
			s := c.Args[1].(VStr).T
			ok := fx.def("bigok", app(SBool, "isdecbig", s))
			fx.writeCheck(st, z.Ref, rootOf(c.C.Args[0]), c.Pos, "big.Int.SetString")
			// ghost: slot 0 of the string heap of the big.Int object holds its decimal source text
			sa := sto(sel(st.Hs, z.Ref), z.Off, s)
			st.Hs = fx.def("Hs", sto(st.Hs, z.Ref, sa))
			res := VPtr{Ref: fx.def("bigres", ite(ok, z.Ref, num(0))), Off: fx.def("bigoff", ite(ok, z.Off, num(0))), Elem: z.Elem}
			return VTuple{E: []Val{res, VBool{ok}}}
		})
	u.reg("(*math/big.Int).Text", "for base 16 returns bighex(src): the lower-case hexadecimal numeral of the value whose decimal source text is src", nil,
		func(fx *FX, st *State, c *CallCtx) Val {
			z := c.Args[0].(VPtr)
			base, _ := isLit(c.Args[1].(VInt).T)
			if base != 16 {
				fx.note("big.Int.Text with base other than 16: result unconstrained")
				return fx.havoc("bigtext", types.Typ[types.String], tTrue)
			}
			fx.nilCheck(st, z.Ref, c.Pos, "big.Int receiver")
			return VStr{app(SSeq, "bighex", sel(sel(st.Hs, z.Ref), z.Off))}
		})
	u.reg("strings.Split", "returns a fresh slice of nparts(s, sep) >= 1 strings, part(s, sep, i); for an empty separator unconstrained", nil,
		func(fx *FX, st *State, c *CallCtx) Val {
			return splitModel(fx, st, c, nil)
		})
	u.reg("strings.SplitN", "returns a fresh slice of min(nparts, n) strings for n > 0: the first n-1 parts and the unsplit remainder", nil,
		func(fx *FX, st *State, c *CallCtx) Val {
			n := c.Args[2].(VInt).T
			return splitModel(fx, st, c, &n)
		})
	u.reg("crypto/rand.Read", "fills b with the next len(b) bytes of the operating system's random stream rng (ghost position rngpos advances by len(b)) and returns (len(b), nil); it never returns an error (documented since Go 1.24, the toolchain go.mod pins: on an OS failure the process aborts)", []int{0},
		func(fx *FX, st *State, c *CallCtx) Val {
			b := c.Args[0].(VSlice)
			fx.writeCheck(st, b.Ref, rootOf(c.C.Args[0]), c.Pos, "rand.Read")
			ok := fx.fresh("randok", SBool)
			fx.assume(tTrue, ok)
			pos := fx.rngPos
			arr := fx.fresh("randbytes", SIArr)
			fx.assume(tTrue, implies(ok, eq(app(SSeq, "view", arr, b.Off, b.Len), app(SSeq, "sub", T{"rng", SSeq}, pos, add(pos, b.Len)))))
			st.H = fx.def("H", sto(st.H, b.Ref, arr))
			fx.rngPos = fx.def("rngpos", ite(ok, add(pos, b.Len), pos))
			fx.rngReads++
			return VTuple{E: []Val{VInt{ite(ok, b.Len, num(0))}, fx.condError(st, ok, "rand")}}
		})
	u.reg("time.Unix", "returns the instant with unixsec == sec (for nsec in 0..999999999)", nil,
		func(fx *FX, st *State, c *CallCtx) Val {
			r := fx.havoc("time", c.C.Signature().Results().At(0).Type(), tTrue)
			ts := flatten(r)
			sec := c.Args[0].(VInt).T
			ns := c.Args[1].(VInt).T
			fx.assume(tTrue, implies(and(le(num(0), ns), le(ns, num(999999999))), eq(app(SInt, "unixsec", ts[0], ts[1]), sec)))
			return r
		})
	u.reg("(*net/url.URL).Query", "returns the parsed query of u.RawQuery: a value whose Get(key) is qget(u.RawQuery, key)", nil,
		func(fx *FX, st *State, c *CallCtx) Val {
			up := c.Args[0].(VPtr)
			fx.nilCheck(st, up.Ref, c.Pos, "URL receiver")
			stt := up.Elem.Underlying().(*types.Struct)
			idx, _, ok := findField(stt, "RawQuery")
			r := fx.allocObj(st, "query", nil)
			if ok {
				rq := fx.loadLeaves(st, up.Ref, add(up.Off, num(fieldOffset(stt, idx))), types.Typ[types.String])[0]
				st.Hs = fx.def("Hs", sto(st.Hs, r, sto(sel(st.Hs, r), num(0), app(SSeq, "qdec", rq))))
			}
			return VMap{Ref: r}
		})
	u.reg("(net/url.Values).Get", "for a value obtained from (*URL).Query(): qget(rawquery, key), the first value of key or \"\"; for a locally built url.Values: qval(contents, key)", nil,
		func(fx *FX, st *State, c *CallCtx) Val {
			m := c.Args[0].(VMap)
			key := c.Args[1].(VStr).T
			g := fx.mapGhost(st, m.Ref)
			return VStr{fx.def("qget", app(SSeq, "qval", g, key))}
		})
	u.reg("(net/url.Values).Set", "sets key to the single value in a url.Values: contents become qset(contents, key, value)", []int{0},
		func(fx *FX, st *State, c *CallCtx) Val {
			m := c.Args[0].(VMap)
			fx.nilCheck(st, m.Ref, c.Pos, "url.Values.Set on nil map")
			if !fx.knownFresh[m.Ref.S] {
				fx.oblige("frame:store", "map", st.PC, not(sel(fx.entry.Alloc, m.Ref)), c.Pos, "url.Values.Set on a map not created by this call")
			}
			fx.setMapGhost(st, m.Ref, app(SSeq, "qset", fx.mapGhost(st, m.Ref), c.Args[1].(VStr).T, c.Args[2].(VStr).T))
			return VUnit{}
		})
	u.reg("(net/url.Values).Encode", "returns qenc(contents): the URL-encoded query; (*URL).Query() of it gives the contents back (axiom qval(qdec(qenc(m)), k) == qval(m, k))", nil,
		func(fx *FX, st *State, c *CallCtx) Val {
			m := c.Args[0].(VMap)
			return VStr{fx.def("qenc", app(SSeq, "qenc", fx.mapGhost(st, m.Ref)))}
		})
	u.reg("net/url.PathEscape", "returns pesc(s) (uninterpreted)", nil,
		func(fx *FX, st *State, c *CallCtx) Val {
			return VStr{app(SSeq, "pesc", c.Args[0].(VStr).T)}
		})
	u.reg("net/url.Parse", "err == nil iff urlparses(s); on success a fresh URL whose Scheme, Host, Path, RawQuery are uscheme(s), uhost(s), upath(s), uquery(s) (the other fields are unconstrained); every output of (*URL).String() of a four-field URL parses (assumed round trip)", nil,
		func(fx *FX, st *State, c *CallCtx) Val {
			s := c.Args[0].(VStr).T
			okT := fx.def("urlok", app(SBool, "urlparses", s))
			var elem types.Type
			if tup, isT := fx.resultType(c.C).(*types.Tuple); isT && tup.Len() == 2 {
				if pt, isP := tup.At(0).Type().Underlying().(*types.Pointer); isP {
					elem = pt.Elem()
				}
			}
			r := fx.allocObj(st, "url", nil)
			if stt, isS := elem.Underlying().(*types.Struct); isS {
				for _, nf := range [][2]string{{"Scheme", "uscheme"}, {"Host", "uhost"}, {"Path", "upath"}, {"RawQuery", "uquery"}} {
					if idx, _, found := findField(stt, nf[0]); found {
						fx.assume(okT, eq(sel(sel(st.Hs, r), num(fieldOffset(stt, idx))), app(SSeq, nf[1], s)))
					}
				}
			}
			res := VPtr{Ref: fx.def("urlres", ite(okT, r, num(0))), Off: num(0), Elem: elem}
			return VTuple{E: []Val{res, fx.condError(st, okT, "urlparse")}}
		})
	u.reg("(*net/url.URL).String", "a function of the URL's fields: urlstring4(Scheme, Host, Path, RawQuery) when every other field is zero (the only URLs the library builds), an arbitrary string otherwise; url.Parse of it reads the four fields back (assumed round trip: uscheme/uhost/upath/uquery)", nil,
		func(fx *FX, st *State, c *CallCtx) Val {
			up := c.Args[0].(VPtr)
			fx.nilCheck(st, up.Ref, c.Pos, "URL receiver")
			r := fx.havoc("urlstr", types.Typ[types.String], tTrue)
			stt, ok := up.Elem.Underlying().(*types.Struct)
			if !ok {
				return r
			}
			ls := layout(up.Elem)
			ts := fx.loadLeaves(st, up.Ref, up.Off, up.Elem)
			main := map[string]T{}
			plain := []T{}
			for i := 0; i < stt.NumFields(); i++ {
				off := int(fieldOffset(stt, i))
				n := len(layout(stt.Field(i).Type()))
				switch stt.Field(i).Name() {
				case "Scheme", "Host", "Path", "RawQuery":
					main[stt.Field(i).Name()] = ts[off]
				default:
					for j := off; j < off+n && j < len(ts); j++ {
						if ls[j].kind == lkOff {
							continue // the offset of a nil pointer is immaterial
						}
						switch ts[j].Sort {
						case SSeq:
							plain = append(plain, eq(ts[j], T{"empty", SSeq}))
						case SBool:
							plain = append(plain, not(ts[j]))
						default:
							plain = append(plain, eq(ts[j], num(0)))
						}
					}
				}
			}
			if len(main) == 4 {
				fx.assume(and(plain...), eq(r.(VStr).T, app(SSeq, "urlstring4", main["Scheme"], main["Host"], main["Path"], main["RawQuery"])))
			}
			return r
		})
	// ---- syscall/js (js/wasm build): a js.Value is identified by its ref; its JavaScript type, string,
	// integer and boolean readings are uninterpreted functions of the ref
	u.reg("(syscall/js.Value).Type", "returns jstype(v): 0 undefined, 1 null, 2 boolean, 3 number, 4 string, 5 symbol, 6 object, 7 function", nil,
		func(fx *FX, st *State, c *CallCtx) Val {
			r := fx.def("jstype", app(SInt, "jstype", flatten(c.Args[0])[0]))
			fx.assume(tTrue, and(le(num(0), r), le(r, num(7))))
			fx.setBounds(r, bigZero, big.NewInt(7))
			return VInt{r}
		})
	u.reg("(syscall/js.Value).String", "returns jsstring(v) (for non-strings a description such as <number: 1>); never panics", nil,
		func(fx *FX, st *State, c *CallCtx) Val {
			return VStr{fx.def("jsstring", app(SSeq, "jsstring", flatten(c.Args[0])[0]))}
		})
	u.reg("(syscall/js.Value).Int", "requires jstype(v) == 3 (panics otherwise); returns jsint(v), the number truncated to int", nil,
		func(fx *FX, st *State, c *CallCtx) Val {
			ref := flatten(c.Args[0])[0]
			fx.oblige("pre", "js.Value.Int.number", st.PC, eq(app(SInt, "jstype", ref), num(3)), c.Pos, "js.Value.Int panics unless the value is a number")
			r := fx.def("jsint", app(SInt, "jsint", ref))
			lo, hi := typeBounds(types.Typ[types.Int])
			fx.assume(tTrue, and(le(bigNum(lo), r), le(r, bigNum(hi))))
			fx.setBounds(r, lo, hi)
			return VInt{r}
		})
	u.reg("syscall/js.ValueOf", "for a Go string s returns a JavaScript string with jsstring == s; for a bool b a JavaScript boolean with jsbool == b; for a js.Value the value itself; other arguments: unconstrained", nil,
		func(fx *FX, st *State, c *CallCtx) Val {
			iv := c.Args[0].(VIface)
			rt := c.C.Signature().Results().At(0).Type()
			r := fx.havoc("jsval", rt, tTrue)
			ref := flatten(r)[0]
			strTag := num(u.typeTag(types.Typ[types.String]))
			boolTag := num(u.typeTag(types.Typ[types.Bool]))
			fx.assume(tTrue, implies(eq(iv.Tag, strTag), and(eq(app(SInt, "jstype", ref), num(4)), eq(app(SSeq, "jsstring", ref), sel(sel(st.Hs, iv.Box), num(0))))))
			fx.assume(tTrue, implies(eq(iv.Tag, boolTag), and(eq(app(SInt, "jstype", ref), num(2)), app(SBool, "=", app(SBool, "jsbool", ref), intToBool(sel(sel(st.H, iv.Box), num(0)))))))
			return r
		})
	u.reg("syscall/js.Global", "returns the JavaScript global object", nil,
		func(fx *FX, st *State, c *CallCtx) Val {
			return fx.havoc("jsglobal", c.C.Signature().Results().At(0).Type(), tTrue)
		})
	u.reg("syscall/js.FuncOf", "wraps a Go function for JavaScript: jsfuncid of the result is the function's id", nil,
		func(fx *FX, st *State, c *CallCtx) Val {
			r := fx.havoc("jsfunc", c.C.Signature().Results().At(0).Type(), tTrue)
			fv := c.Args[0].(VFunc)
			fx.assume(tTrue, eq(app(SInt, "jsfuncid", flatten(r)[0]), fv.Id))
			return r
		})
	u.reg("(syscall/js.Value).Set", "sets property p of a JavaScript object (ghost: recorded as a registration when the value is a wrapped Go function)", nil,
		func(fx *FX, st *State, c *CallCtx) Val {
			name := c.Args[1].(VStr).T
			iv := c.Args[2].(VIface)
			// the boxed value is a js.Func struct whose first field is a js.Value
			inner := sel(sel(st.H, iv.Box), num(0))
			fx.jsSets = append(fx.jsSets, [2]T{name, app(SInt, "jsfuncid", inner)})
			return VUnit{}
		})
	u.reg("(syscall/js.Type).String", "returns the name of a JavaScript type", nil,
		func(fx *FX, st *State, c *CallCtx) Val {
			return fx.havoc("jstypename", types.Typ[types.String], tTrue)
		})
	u.reg("invoke error.Error", "returns the text of an error (some string)", nil,
		func(fx *FX, st *State, c *CallCtx) Val {
			return fx.havoc("errtext", types.Typ[types.String], tTrue)
		})
	u.reg("time.Now", "returns some instant at or after the Unix epoch and before 2^62 s (the server clock is sane)", nil,
		func(fx *FX, st *State, c *CallCtx) Val {
			r := fx.havoc("now", c.C.Signature().Results().At(0).Type(), tTrue)
			ts := flatten(r)
			us := app(SInt, "unixsec", ts[0], ts[1])
			fx.assume(tTrue, and(le(num(0), us), lt(us, T{"4611686018427387904", SInt})))
			// ghosts nowunix / nowcalls
			st.Now = fx.def("nowunix", us)
			st.NowN = fx.def("nowcalls", add(st.NowN, num(1)))
			return r
		})
}

func splitModel(fx *FX, st *State, c *CallCtx, n *T) Val {
	s, sep := c.Args[0].(VStr).T, c.Args[1].(VStr).T
	cnt := fx.def("nparts", app(SInt, "nparts", s, sep))
	fx.assume(tTrue, ge(cnt, num(1)))
	ln := cnt
	rt := c.C.Signature().Results().At(0).Type()
	et := rt.Underlying().(*types.Slice).Elem()
	r := fx.allocObj(st, "split", et)
	arr := fx.fresh("splitarr", SSArr)
	if n != nil {
		ln = fx.def("nsplit", ite(gt(*n, num(0)), app(SInt, "imin", cnt, *n), ite(eq(*n, num(0)), num(0), cnt)))
		// SplitN: parts 0..ln-2 are part(s,sep,i); the last is the remainder
		fx.line("(assert (forall ((k!s Int)) (! (=> (and (<= 0 k!s) (< k!s (- " + ln.S + " 1))) (= (select " + arr.S + " k!s) (part " + s.S + " " + sep.S + " k!s))) :pattern ((select " + arr.S + " k!s)))))")
		fx.assume(tTrue, implies(ge(ln, num(1)), app(SBool, "=", sel(arr, sub(ln, num(1))), app(SSeq, "partrest", s, sep, sub(ln, num(1))))))
	} else {
		fx.line("(assert (forall ((k!s Int)) (! (=> (and (<= 0 k!s) (< k!s " + ln.S + ")) (= (select " + arr.S + " k!s) (part " + s.S + " " + sep.S + " k!s))) :pattern ((select " + arr.S + " k!s)))))")
	}
	st.Hs = fx.def("Hs", sto(st.Hs, r, arr))
	_, hi := typeBounds(types.Typ[types.Int])
	fx.assume(tTrue, le(ln, bigNum(hi)))
	fx.setBounds(ln, bigZero, hi)
	return VSlice{Ref: r, Off: num(0), Len: ln, Cap: ln, Elem: et}
}

var _ = ssa.NaiveForm
