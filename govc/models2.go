package main

func registerMoreModels(u *Unit) {}
