package main

// Evaluation of contract expressions into symbolic values.

import (
	"fmt"
	"os"

	"golang.org/x/tools/go/ssa/ssautil"
	"go/types"
	"strings"
)

func (fx *FX) evalBool(env *Env, e Expr) T {
	v := fx.evalExpr(env, e)
	if b, ok := v.(VBool); ok {
		return b.T
	}
	fx.fail("contract expression is not boolean: %#v", e)
	return tFalse
}

func (fx *FX) evalInt(env *Env, e Expr) T {
	v := fx.evalExpr(env, e)
	if b, ok := v.(VInt); ok {
		return b.T
	}
	fx.fail("contract expression is not an integer: %#v", e)
	return num(0)
}

func (fx *FX) toSeq(env *Env, v Val) (T, bool) {
	switch x := v.(type) {
	case VStr:
		return x.T, true
	case VSeq:
		return x.T, true
	case VSlice:
		return app(SSeq, "view", sel(fx.rH(env.st, x.Ref), x.Ref), x.Off, x.Len), true
	}
	return T{}, false
}

func (fx *FX) valEq(env *Env, a, b Val) T {
	switch x := a.(type) {
	case VInt:
		if y, ok := b.(VInt); ok {
			return eq(x.T, y.T)
		}
	case VBool:
		if y, ok := b.(VBool); ok {
			return eq(x.T, y.T)
		}
	case VStr, VSeq:
		sa, _ := fx.toSeq(env, a)
		if sb, ok := fx.toSeq(env, b); ok {
			return eq(sa, sb)
		}
	case VIface:
		switch y := b.(type) {
		case VNil:
			return eq(x.Tag, num(0))
		case VIface:
			return and(eq(x.Tag, y.Tag), eq(x.Box, y.Box))
		}
	case VPtr:
		switch y := b.(type) {
		case VNil:
			return eq(x.Ref, num(0))
		case VPtr:
			return and(eq(x.Ref, y.Ref), eq(x.Off, y.Off))
		}
	case VSlice:
		switch y := b.(type) {
		case VNil:
			return eq(x.Ref, num(0))
		case VSeq, VStr:
			sa, _ := fx.toSeq(env, a)
			sb, _ := fx.toSeq(env, y)
			return eq(sa, sb)
		}
	case VMap:
		if _, ok := b.(VNil); ok {
			return eq(x.Ref, num(0))
		}
	case VFunc:
		if _, ok := b.(VNil); ok {
			return eq(x.Id, num(0))
		}
	case VNil:
		if _, ok := b.(VNil); ok {
			return tTrue
		}
		return fx.valEq(env, b, a)
	case VStruct:
		if y, ok := b.(VStruct); ok && len(x.F) == len(y.F) {
			var cs []T
			for i := range x.F {
				cs = append(cs, fx.valEq(env, x.F[i], y.F[i]))
			}
			return and(cs...)
		}
	}
	fx.fail("contract: cannot compare %T with %T", a, b)
	return tFalse
}

type VNil struct{}

func (fx *FX) evalExpr(env *Env, e Expr) Val {
	switch x := e.(type) {
	case EInt:
		return VInt{bigNum(x.V)}
	case EBool:
		if x.V {
			return VBool{tTrue}
		}
		return VBool{tFalse}
	case EStr:
		return VSeq{fx.strLit(x.S)}
	case ENil:
		return VNil{}
	case EIdent:
		if v, ok := env.lookup(x.Name); ok {
			return v
		}
		switch x.Name {
		case "rngpos":
			return VInt{fx.rngPos}
		case "rngpos0":
			return VInt{fx.rngPos0}
		case "rangecount": // number of keys the enclosing map-range loop has visited (ghost)
			if env.rangeCount.S != "" {
				return VInt{env.rangeCount}
			}
		case "panicking": // recover() returned a non-nil value in this function (it runs as a deferred call during a panic)
			var alts []T
			for _, t := range fx.recoverTags {
				alts = append(alts, not(eq(t, num(0))))
			}
			if len(alts) == 0 {
				return VBool{tFalse}
			}
			return VBool{or(alts...)}
		case "nowunix": // Unix seconds of the most recent time.Now() on this path (ghost)
			if env.st != nil && env.st.Now.S != "" {
				return VInt{env.st.Now}
			}
		case "nowcalls": // number of time.Now() calls on this path (ghost)
			if env.st != nil && env.st.NowN.S != "" {
				return VInt{env.st.NowN}
			}
		}
		if c, ok := fx.u.specConst(x.Name); ok {
			return c
		}
		if os.Getenv("GOVC_DEBUG") != "" {
			var ks []string
			for k := range fx.names {
				ks = append(ks, k)
			}
			sv := fx.names[x.Name]
			_, have := fx.vals[sv]
			fmt.Fprintf(os.Stderr, "DEBUG unknown %s in %s callee=%v sv=%T %v have=%v\n", x.Name, fx.name, env.calleeMode, sv, sv, have)
		}
		fx.fail("contract: unknown name %q", x.Name)
		return VInt{num(0)}
	case EUn:
		switch x.Op {
		case "!":
			return VBool{not(fx.evalBool(env, x.X))}
		case "-":
			return VInt{sub(num(0), fx.evalInt(env, x.X))}
		case "*":
			v := fx.evalExpr(env, x.X)
			if p, ok := v.(VPtr); ok {
				r, _ := unflatten(p.Elem, fx.loadLeaves(env.st, p.Ref, p.Off, p.Elem))
				return r
			}
			fx.fail("contract: deref of non-pointer")
			return VInt{num(0)}
		}
	case EBin:
		switch x.Op {
		case "&&":
			return VBool{and(fx.evalBool(env, x.X), fx.evalBool(env, x.Y))}
		case "||":
			return VBool{or(fx.evalBool(env, x.X), fx.evalBool(env, x.Y))}
		case "==>":
			return VBool{implies(fx.evalBool(env, x.X), fx.evalBool(env, x.Y))}
		case "<==>":
			return VBool{app(SBool, "=", fx.evalBool(env, x.X), fx.evalBool(env, x.Y))}
		case "==":
			return VBool{fx.valEq(env, fx.evalExpr(env, x.X), fx.evalExpr(env, x.Y))}
		case "!=":
			return VBool{not(fx.valEq(env, fx.evalExpr(env, x.X), fx.evalExpr(env, x.Y)))}
		}
		a, b := fx.evalInt(env, x.X), fx.evalInt(env, x.Y)
		switch x.Op {
		case "+":
			return VInt{add(a, b)}
		case "-":
			return VInt{sub(a, b)}
		case "*":
			return VInt{mul(a, b)}
		case "/":
			return VInt{ediv(a, b)} // contract-level division: floor (Euclidean); operands are non-negative in all uses
		case "%":
			return VInt{emod(a, b)}
		case "<":
			return VBool{lt(a, b)}
		case "<=":
			return VBool{le(a, b)}
		case ">":
			return VBool{gt(a, b)}
		case ">=":
			return VBool{ge(a, b)}
		case "<<":
			if c, ok := isLit(b); ok && c >= 0 && c < 256 {
				return VInt{mul(a, pow2(uint(c)))}
			}
		}
		fx.fail("contract: unsupported operator %s", x.Op)
		return VInt{num(0)}
	case ECond:
		c := fx.evalBool(env, x.C)
		a, b := fx.evalExpr(env, x.A), fx.evalExpr(env, x.B)
		switch av := a.(type) {
		case VInt:
			return VInt{ite(c, av.T, b.(VInt).T)}
		case VBool:
			return VBool{ite(c, av.T, b.(VBool).T)}
		case VSeq, VStr, VSlice:
			sa, _ := fx.toSeq(env, a)
			sb, _ := fx.toSeq(env, b)
			return VSeq{ite(c, sa, sb)}
		}
		fa, fb := flatten(a), flatten(b)
		if len(fa) == len(fb) {
			if st, ok := a.(VStruct); ok {
				out := make([]T, len(fa))
				for i := range fa {
					out[i] = ite(c, fa[i], fb[i])
				}
				r, _ := unflatten(st.Typ, out)
				return r
			}
		}
		fx.fail("contract: conditional over unsupported values")
		return VInt{num(0)}
	case ELet:
		v := fx.evalExpr(env, x.E)
		return fx.evalExpr(env.with(x.Name, v), x.Body)
	case EQuant:
		if x.Bounded {
			lo, ok1 := isLit(fx.evalInt(env, x.Lo))
			hi, ok2 := isLit(fx.evalInt(env, x.Hi))
			if !ok1 || !ok2 || hi-lo > 4096 {
				fx.fail("contract: quantifier range must be literal and small")
				return VBool{tFalse}
			}
			var parts []T
			for k := lo; k <= hi; k++ {
				parts = append(parts, fx.evalBool(env.with(x.Var, VInt{num(k)}), x.Body))
			}
			if x.All {
				return VBool{and(parts...)}
			}
			return VBool{or(parts...)}
		}
		qv := fmt.Sprintf("%s!q%d", x.Var, fx.nextQ())
		var bv Val = VInt{T{qv, SInt}}
		srt := "Int"
		if x.VarSeq {
			bv = VSeq{T{qv, SSeq}}
			srt = "BSeq"
		}
		body := fx.evalBool(env.with(x.Var, bv), x.Body)
		q := "forall"
		if !x.All {
			q = "exists"
		}
		return VBool{T{fmt.Sprintf("(%s ((%s %s)) %s)", q, qv, srt, body.S), SBool}}
	case ESel:
		v := fx.evalExpr(env, x.X)
		return fx.selectField(env, v, x.Name)
	case EIndex:
		v := fx.evalExpr(env, x.X)
		i := fx.evalInt(env, x.I)
		switch b := v.(type) {
		case VSlice:
			esz := sizeOf(b.Elem)
			r, _ := unflatten(b.Elem, fx.loadLeaves(env.st, b.Ref, add(b.Off, mul(i, num(esz))), b.Elem))
			return r
		case VPtr:
			if at, ok := b.Elem.Underlying().(*types.Array); ok {
				esz := sizeOf(at.Elem())
				r, _ := unflatten(at.Elem(), fx.loadLeaves(env.st, b.Ref, add(b.Off, mul(i, num(esz))), at.Elem()))
				return r
			}
		case VStr:
			return VInt{app(SInt, "at", b.T, i)}
		case VSeq:
			return VInt{app(SInt, "at", b.T, i)}
		case VArr:
			if k, ok := isLit(i); ok && k >= 0 && k < int64(len(b.E)) {
				return b.E[k]
			}
		}
		fx.fail("contract: cannot index %T", v)
		return VInt{num(0)}
	case ESliceE:
		v := fx.evalExpr(env, x.X)
		s, ok := fx.toSeq(env, v)
		if !ok {
			fx.fail("contract: cannot slice %T", v)
			return VSeq{T{"empty", SSeq}}
		}
		lo := num(0)
		hi := app(SInt, "len", s)
		if x.Lo != nil {
			lo = fx.evalInt(env, x.Lo)
		}
		if x.Hi != nil {
			hi = fx.evalInt(env, x.Hi)
		}
		return VSeq{app(SSeq, "sub", s, lo, hi)}
	case ECall:
		return fx.evalCall(env, x)
	}
	fx.fail("contract: unsupported expression %#v", e)
	return VInt{num(0)}
}

func (fx *FX) nextQ() int { fx.n++; return fx.n }

func (fx *FX) selectField(env *Env, v Val, name string) Val {
	switch b := v.(type) {
	case VPtr:
		st, ok := b.Elem.Underlying().(*types.Struct)
		if !ok {
			break
		}
		idx, ft, ok := findField(st, name)
		if !ok {
			break
		}
		rs := env.st
		if a, ok := fx.privByRef[b.Ref.S]; ok && !env.calleeMode {
			if v, ok := env.st.Priv[a]; ok {
				rs = env.st.clone()
				rs.H, rs.Hs = v[0], v[1]
			}
		}
		r, _ := unflatten(ft, fx.loadLeaves(rs, b.Ref, add(b.Off, num(fieldOffset(st, idx))), ft))
		return r
	case VStruct:
		st, ok := b.Typ.Underlying().(*types.Struct)
		if !ok {
			break
		}
		idx, _, ok := findField(st, name)
		if ok {
			return b.F[idx]
		}
		// promoted field through an embedded struct
		for i := 0; i < st.NumFields(); i++ {
			if st.Field(i).Embedded() {
				if inner, ok := b.F[i].(VStruct); ok {
					if ist, ok := inner.Typ.Underlying().(*types.Struct); ok {
						if j, _, ok := findField(ist, name); ok {
							return inner.F[j]
						}
					}
				}
			}
		}
	case VSlice:
		switch name {
		case "ref":
			return VInt{b.Ref}
		case "off":
			return VInt{b.Off}
		}
	case VIface:
		switch name {
		case "tag":
			return VInt{b.Tag}
		case "box":
			return VInt{b.Box}
		}
	}
	fx.fail("contract: no field %s in %T", name, v)
	return VInt{num(0)}
}

func findField(st *types.Struct, name string) (int, types.Type, bool) {
	for i := 0; i < st.NumFields(); i++ {
		if st.Field(i).Name() == name {
			return i, st.Field(i).Type(), true
		}
	}
	return 0, nil, false
}

func (fx *FX) evalCall(env *Env, c ECall) Val {
	argv := func(i int) Val { return fx.evalExpr(env, c.Args[i]) }
	seq := func(i int) T {
		s, ok := fx.toSeq(env, argv(i))
		if !ok {
			fx.fail("contract: argument %d of %s is not a sequence", i+1, c.Fn)
			return T{"empty", SSeq}
		}
		return s
	}
	switch c.Fn {
	case "old":
		e2 := *env
		e2.st = env.old
		return fx.evalExpr(&e2, c.Args[0])
	case "len":
		switch a := argv(0).(type) {
		case VSlice:
			return VInt{a.Len}
		case VStr, VSeq:
			s, _ := fx.toSeq(env, a)
			return VInt{app(SInt, "len", s)}
		case VArr:
			return VInt{num(int64(len(a.E)))}
		}
		fx.fail("contract: len of unsupported value")
		return VInt{num(0)}
	case "cap":
		if a, ok := argv(0).(VSlice); ok {
			return VInt{a.Cap}
		}
	case "view":
		return VSeq{seq(0)}
	case "cat":
		r := seq(0)
		for i := 1; i < len(c.Args); i++ {
			r = app(SSeq, "cat", r, seq(i))
		}
		return VSeq{r}
	case "sub":
		return VSeq{app(SSeq, "sub", seq(0), fx.evalInt(env, c.Args[1]), fx.evalInt(env, c.Args[2]))}
	case "take":
		return VSeq{app(SSeq, "sub", seq(0), num(0), fx.evalInt(env, c.Args[1]))}
	case "drop":
		s := seq(0)
		return VSeq{app(SSeq, "sub", s, fx.evalInt(env, c.Args[1]), app(SInt, "len", s))}
	case "single":
		return VSeq{app(SSeq, "single", fx.evalInt(env, c.Args[0]))}
	case "zeros":
		return VSeq{app(SSeq, "zeros", fx.evalInt(env, c.Args[0]))}
	case "min":
		return VInt{app(SInt, "imin", fx.evalInt(env, c.Args[0]), fx.evalInt(env, c.Args[1]))}
	case "max":
		return VInt{app(SInt, "imax", fx.evalInt(env, c.Args[0]), fx.evalInt(env, c.Args[1]))}
	case "fresh": // allocated by this call: not allocated at entry
		switch a := argv(0).(type) {
		case VSlice:
			return VBool{not(sel(fx.entryAllocFor(env), a.Ref))}
		case VPtr:
			return VBool{not(sel(fx.entryAllocFor(env), a.Ref))}
		case VIface:
			return VBool{not(sel(fx.entryAllocFor(env), a.Box))}
		case VStr, VSeq:
			return VBool{tTrue}
		}
	case "ishmac":
		if h, ok := argv(0).(VIface); ok {
			return VBool{eq(h.Tag, num(fx.u.typeTag(hmacTagType)))}
		}
	case "hmacalg":
		if h, ok := argv(0).(VIface); ok {
			return VInt{sel(sel(env.st.H, h.Box), num(0))}
		}
	case "hmackey":
		if h, ok := argv(0).(VIface); ok {
			return VSeq{sel(sel(env.st.Hs, h.Box), num(0))}
		}
	case "hmacmsg":
		if h, ok := argv(0).(VIface); ok {
			return VSeq{sel(sel(env.st.Hs, h.Box), num(1))}
		}
	case "aliases":
		a, ok1 := argv(0).(VSlice)
		b, ok2 := argv(1).(VSlice)
		if ok1 && ok2 {
			return VBool{eq(a.Ref, b.Ref)}
		}
	case "isnil":
		return VBool{fx.valEq(env, argv(0), VNil{})}
	case "dyntype":
		if iv, ok := argv(0).(VIface); ok {
			if id, ok := c.Args[1].(EIdent); ok {
				if tag, ok := fx.u.tagByName(id.Name); ok {
					return VBool{eq(iv.Tag, num(tag))}
				}
			}
		}
	case "unbox": // unbox(iface, TypeName): the concrete value held by an interface
		if iv, ok := argv(0).(VIface); ok {
			if id, ok := c.Args[1].(EIdent); ok {
				if t := fx.u.typeByName(id.Name); t != nil {
					r, _ := unflatten(t, fx.loadLeaves(env.st, iv.Box, num(0), t))
					return r
				}
			}
		}
	case "respstatus", "respnbody", "respbody", "respctype": // ghost response state of a *fasthttp.RequestCtx
		if p, ok := argv(0).(VPtr); ok {
			switch c.Fn {
			case "respstatus":
				return VInt{sel(sel(env.st.H, p.Ref), num(ctxStatus))}
			case "respnbody":
				return VInt{sel(sel(env.st.H, p.Ref), num(ctxNBody))}
			case "respbody":
				return VSeq{sel(sel(env.st.Hs, p.Ref), num(ctxBody))}
			}
			return VSeq{sel(sel(env.st.Hs, p.Ref), num(ctxCType))}
		}
	case "ispost", "isget", "reqbody", "reqpath", "reqquery": // ghost readings of the request
		if p, ok := argv(0).(VPtr); ok {
			switch c.Fn {
			case "ispost", "isget":
				return VBool{app(SBool, c.Fn, p.Ref)}
			case "reqquery":
				return VSeq{app(SSeq, "reqquery", p.Ref, seq(1))}
			}
			return VSeq{app(SSeq, c.Fn, p.Ref)}
		}
	case "funcis": // funcis(f, name): the function value f is the function (literal) called name in this package
		if fv, ok := argv(0).(VFunc); ok {
			if id, ok := c.Args[1].(EIdent); ok {
				for _, p := range fx.u.Pkgs {
					for fn := range ssautil.AllFunctions(fx.u.Prog) {
						if fn.Pkg == p || (fn.Parent() != nil && fn.Parent().Pkg == p) {
							if fn.Name() == id.Name {
								return VBool{eq(fv.Id, num(fx.u.fnID(fn)))}
							}
						}
					}
				}
			}
		}
	case "jok": // jok(text, TypeName): json.Unmarshal of text into a TypeName succeeds
		if id, ok := c.Args[1].(EIdent); ok {
			if tag, ok := fx.u.tagByName(id.Name); ok {
				return VBool{app(SBool, "jok", seq(0), num(tag))}
			}
		}
	case "jstype", "jsint", "jsstring", "jsbool": // readings of a js.Value (or of an `any` holding one)
		var ref T
		switch a := argv(0).(type) {
		case VStruct:
			ref = flatten(a)[0]
		case VIface:
			ref = sel(sel(env.st.H, a.Box), num(0))
		default:
			fx.fail("contract: %s needs a js.Value", c.Fn)
			return VInt{num(0)}
		}
		switch c.Fn {
		case "jstype":
			return VInt{app(SInt, "jstype", ref)}
		case "jsint":
			return VInt{app(SInt, "jsint", ref)}
		case "jsstring":
			return VSeq{app(SSeq, "jsstring", ref)}
		}
		return VBool{app(SBool, "jsbool", ref)}
	case "rangecount": // number of keys the enclosing map-range loop has visited (ghost)
		if env.rangeCount.S != "" {
			return VInt{env.rangeCount}
		}
		fx.fail("contract: rangecount outside a map-range loop over string keys")
		return VInt{num(0)}
	case "offset0": // the slice starts at offset 0 of its backing object
		if sv, ok := argv(0).(VSlice); ok {
			return VBool{eq(sv.Off, num(0))}
		}
		fx.fail("contract: offset0 needs a slice")
		return VBool{tFalse}
	case "rangeseen": // the enclosing map-range loop has already visited key k (ghost)
		if env.rangeSeen.S != "" {
			return VBool{sel(env.rangeSeen, seq(0))}
		}
		fx.fail("contract: rangeseen outside a map-range loop over string keys")
		return VBool{tFalse}
	case "qhas", "qval": // abstract contents of a string->string map value (local map, url.Values)
		if mv, ok := argv(0).(VMap); ok {
			g := fx.mapGhost(env.st, mv.Ref)
			if c.Fn == "qhas" {
				return VBool{app(SBool, "qhas", g, seq(1))}
			}
			return VSeq{app(SSeq, "qval", g, seq(1))}
		}
	case "maphas", "mapget": // lookup in a package-level literal map: maphas(knownSuites, key)
		if id, ok := c.Args[0].(EIdent); ok {
			if cm, vt := fx.u.globalMap(id.Name); cm != nil {
				var kt T
				switch k := argv(1).(type) {
				case VInt:
					kt = k.T
				default:
					kt = seq(1)
				}
				v, has := fx.u.mapChain(fx, cm, kt, vt)
				if c.Fn == "maphas" {
					return VBool{has}
				}
				return v
			}
		}
	case "suitecfg": // the SuiteConfig held by a Suite value of dynamic type SuiteConfig or RawSuite (same layout)
		if iv, ok := argv(0).(VIface); ok {
			t := fx.u.typeByName("SuiteConfig")
			rt := fx.u.typeByName("RawSuite")
			if t != nil && rt != nil && sizeOf(t) == sizeOf(rt) {
				r, _ := unflatten(t, fx.loadLeaves(env.st, iv.Box, num(0), t))
				return r
			}
		}
	case "apply0", "apply1": // results of a pure function-typed value
		if fv, ok := argv(0).(VFunc); ok {
			idx := 0
			if c.Fn == "apply1" {
				idx = 1
			}
			return fx.u.pureApplyIdx(fx, fv, idx, c)
		}
	case "alloc":
		switch a := argv(0).(type) {
		case VSlice:
			return VBool{sel(env.st.Alloc, a.Ref)}
		case VPtr:
			return VBool{sel(env.st.Alloc, a.Ref)}
		}
	}
	if m, ok := fx.u.Contracts.Macros[c.Fn]; ok {
		if len(m.Params) != len(c.Args) {
			fx.fail("contract: macro %s expects %d arguments", c.Fn, len(m.Params))
			return VBool{tFalse}
		}
		e2 := env
		for i, pn := range m.Params {
			e2 = e2.with(pn, argv(i))
		}
		return fx.evalExpr(e2, m.Body)
	}
	// spec-library function
	if sp, ok := fx.u.Specs[c.Fn]; ok {
		if len(sp.Args) != len(c.Args) {
			fx.fail("contract: %s expects %d arguments", c.Fn, len(sp.Args))
			return VInt{num(0)}
		}
		ts := make([]T, len(c.Args))
		for i := range c.Args {
			switch sp.Args[i] {
			case SSeq:
				ts[i] = seq(i)
			case SBool:
				ts[i] = fx.evalBool(env, c.Args[i])
			default:
				v := argv(i)
				switch tv := v.(type) {
				case VInt:
					ts[i] = tv.T
				case VBool:
					ts[i] = boolToInt(tv.T)
				default:
					fx.fail("contract: argument %d of %s must be an integer", i+1, c.Fn)
					ts[i] = num(0)
				}
			}
		}
				r := app(sp.Res, c.Fn, ts...)
		switch sp.Res {
		case SBool:
			return VBool{r}
		case SSeq:
			return VSeq{r}
		}
		return VInt{r}
	}
	fx.fail("contract: unknown function %s", c.Fn)
	return VInt{num(0)}
}

func (fx *FX) entryAllocFor(env *Env) T {
	if env.calleeMode {
		return env.old.Alloc
	}
	return fx.entry.Alloc
}

var _ = strings.TrimSpace
