package main

// A verification unit: the SSA program of one build configuration plus the
// contract set, the spec library, type tags, function ids and the concrete
// initial state of package-level variables (obtained by interpreting the
// compiled package initialisers).

import (
	"go/ast"
	"fmt"
	"go/constant"
	"go/token"
	"go/types"
	"math/big"
	"os"
	"sort"
	"strings"

	"golang.org/x/tools/go/packages"
	"golang.org/x/tools/go/ssa"
	"golang.org/x/tools/go/ssa/ssautil"
	"golang.org/x/tools/go/types/typeutil"
)

type SpecSig struct {
	Args    []Sort
	Res     Sort
	UsesSeq bool
}

type Unit struct {
	Name     string
	Prog     *ssa.Program
	Pkgs     []*ssa.Package // packages verified in this unit (first is the main one)
	Contracts *ContractSet
	Specs    map[string]SpecSig
	SpecText string
	specForms []sexpr
	opaque   map[string]bool
	usesSeq  bool
	errors   []string

	tags     typeutil.Map
	tagList  []types.Type
	fnIDs    map[*ssa.Function]int64
	fnList   []*ssa.Function
	lits     map[string]T
	litList  []string
	globals  map[*ssa.Global]*cobj
	objIDs   map[*cobj]int64
	objList  []*cobj
	models   map[string]*Model
	pureSyms map[string]bool
	addrTaken map[*ssa.Function]bool
	callers   map[*ssa.Function][]*ssa.Function
	intrinsic map[*ssa.Function]*label
	litNames  map[token.Pos]string // function literals in package-level var initialisers: stable names
}

func LoadUnit(name, dir string, patterns []string, env []string, tags string, contractFiles []string, specFile string) (*Unit, error) {
	cfg := &packages.Config{Mode: packages.LoadAllSyntax, Dir: dir, BuildFlags: []string{"-tags=" + tags}, Env: append(os.Environ(), env...)}
	pkgs, err := packages.Load(cfg, patterns...)
	if err != nil {
		return nil, err
	}
	for _, p := range pkgs {
		if len(p.Errors) > 0 {
			return nil, fmt.Errorf("package %s: %v", p.PkgPath, p.Errors[0])
		}
	}
	prog, spkgs := ssautil.AllPackages(pkgs, ssa.GlobalDebug|ssa.BareInits)
	prog.Build()
	// A function literal in the initialiser of a package-level variable is called <Var>$<k> (k-th literal of that
	// variable's initialiser) instead of go/ssa's init$<n>, whose n shifts whenever another literal is added to the package.
	litNames := map[token.Pos]string{}
	packages.Visit(pkgs, nil, func(p *packages.Package) {
		if !strings.HasPrefix(p.PkgPath, "github.com/ja7ad/otp") {
			return
		}
		for _, f := range p.Syntax {
			for _, d := range f.Decls {
				gd, ok := d.(*ast.GenDecl)
				if !ok || gd.Tok != token.VAR {
					continue
				}
				for _, sp := range gd.Specs {
					vs := sp.(*ast.ValueSpec)
					k := 0
					for _, val := range vs.Values {
						var walk func(n ast.Node)
						walk = func(n ast.Node) {
							ast.Inspect(n, func(m ast.Node) bool {
								if fl, ok := m.(*ast.FuncLit); ok {
									k++
									litNames[fl.Pos()] = fmt.Sprintf("%s$%d", vs.Names[0].Name, k)
									return false // nested literals keep go/ssa's parent$n naming
								}
								return true
							})
						}
						walk(val)
					}
				}
			}
		}
	})
	u := &Unit{Name: name, Prog: prog, fnIDs: map[*ssa.Function]int64{}, lits: map[string]T{}, globals: map[*ssa.Global]*cobj{}, objIDs: map[*cobj]int64{}, pureSyms: map[string]bool{}, litNames: litNames}
	for _, sp := range spkgs {
		if sp != nil {
			u.Pkgs = append(u.Pkgs, sp)
		}
	}
	// the library package is internal to every unit that imports it
	for _, p := range prog.AllPackages() {
		if p.Pkg.Path() == "github.com/ja7ad/otp" {
			found := false
			for _, q := range u.Pkgs {
				if q == p {
					found = true
				}
			}
			if !found {
				u.Pkgs = append(u.Pkgs, p)
			}
		}
	}
	cs, err := LoadContracts(contractFiles)
	if err != nil {
		return nil, err
	}
	u.Contracts = cs
	if err := u.loadSpecs(specFile); err != nil {
		return nil, err
	}
	u.registerModels()
	u.computeAddrTaken()
	for _, p := range u.Pkgs {
		u.interpretInit(p)
	}
	return u, nil
}

func (u *Unit) internal(fn *ssa.Function) bool {
	pkg := fn.Pkg
	if pkg == nil && fn.Parent() != nil {
		pkg = fn.Parent().Pkg
	}
	for _, p := range u.Pkgs {
		if p == pkg {
			return true
		}
	}
	return false
}

func (u *Unit) contractKey(fn *ssa.Function) string {
	pkg := fn.Pkg
	if pkg == nil {
		return fn.String()
	}
	if par := fn.Parent(); par != nil && par.Name() == "init" && fn.Syntax() != nil {
		if n, ok := u.litNames[fn.Syntax().Pos()]; ok {
			return pkg.Pkg.Name() + "." + n
		}
	}
	return pkg.Pkg.Name() + "." + fn.RelString(pkg.Pkg)
}

// shortName is the function's name inside its package, with the stable naming of initialiser literals.
func (u *Unit) shortName(fn *ssa.Function) string {
	k := u.contractKey(fn)
	if fn.Pkg != nil && strings.HasPrefix(k, fn.Pkg.Pkg.Name()+".") && fn.Parent() != nil {
		return k[len(fn.Pkg.Pkg.Name())+1:]
	}
	return fn.Name()
}

func (u *Unit) contractOf(fn *ssa.Function) *FuncContract {
	return u.Contracts.Funcs[u.contractKey(fn)]
}

// ---------------------------------------------------------------------------
// spec library

func (u *Unit) loadSpecs(file string) error {
	data, err := os.ReadFile(file)
	if err != nil {
		return err
	}
	u.SpecText = string(data)
	u.Specs = map[string]SpecSig{}
	u.opaque = map[string]bool{}
	for _, line := range strings.Split(u.SpecText, "\n") {
		if strings.HasPrefix(line, "; @opaque") {
			for _, n := range strings.Fields(line)[2:] {
				u.opaque[n] = true
			}
		}
	}
	sx, err := parseSexprs(u.SpecText)
	if err != nil {
		return err
	}
	u.specForms = sx
	sortOf := func(s sexpr) Sort {
		switch s.String() {
		case "Int":
			return SInt
		case "Bool":
			return SBool
		case "BSeq":
			return SSeq
		}
		return SInt
	}
	for _, s := range sx {
		if len(s.list) < 4 {
			continue
		}
		switch s.list[0].atom {
		case "declare-fun":
			sig := SpecSig{Res: sortOf(s.list[3])}
			for _, a := range s.list[2].list {
				sig.Args = append(sig.Args, sortOf(a))
			}
			u.Specs[s.list[1].atom] = sig
		case "define-fun", "define-fun-rec":
			sig := SpecSig{Res: sortOf(s.list[3])}
			for _, a := range s.list[2].list {
				sig.Args = append(sig.Args, sortOf(a.list[1]))
			}
			u.Specs[s.list[1].atom] = sig
		}
	}
	// builtin prelude functions
	u.Specs["pow10"] = SpecSig{Args: []Sort{SInt}, Res: SInt}
	u.Specs["pow256"] = SpecSig{Args: []Sort{SInt}, Res: SInt}
	return nil
}

// specTextFor renders the spec library with opaque definitions hidden unless revealed.
func (u *Unit) specTextFor(reveal map[string]bool, intOnly bool) string {
	var b strings.Builder
	for _, s := range u.specForms {
		t := s.String()
		if intOnly && (strings.Contains(t, "BSeq") || seqRe.MatchString(t)) {
			continue
		}
		if s.isList && len(s.list) >= 5 && s.list[0].atom == "define-fun" && u.opaque[s.list[1].atom] && !reveal[s.list[1].atom] {
			var sorts []string
			for _, a := range s.list[2].list {
				sorts = append(sorts, a.list[1].String())
			}
			t = fmt.Sprintf("(declare-fun %s (%s) %s)", s.list[1].atom, strings.Join(sorts, " "), s.list[3].String())
		}
		b.WriteString(t)
		b.WriteString("\n")
	}
	return b.String()
}

func (u *Unit) specConst(name string) (Val, bool) {
	if sp, ok := u.Specs[name]; ok && len(sp.Args) == 0 {
		switch sp.Res {
		case SBool:
			return VBool{T{name, SBool}}, true
		case SSeq:
			return VSeq{T{name, SSeq}}, true
		}
		return VInt{T{name, SInt}}, true
	}
	return nil, false
}

type sexpr struct {
	atom string
	list []sexpr
	isList bool
}

func (s sexpr) String() string {
	if !s.isList {
		return s.atom
	}
	var parts []string
	for _, x := range s.list {
		parts = append(parts, x.String())
	}
	return "(" + strings.Join(parts, " ") + ")"
}

func parseSexprs(src string) ([]sexpr, error) {
	var out []sexpr
	i := 0
	var parse func() (sexpr, error)
	skip := func() {
		for i < len(src) {
			if src[i] == ';' {
				for i < len(src) && src[i] != '\n' {
					i++
				}
			} else if src[i] == ' ' || src[i] == '\n' || src[i] == '\t' || src[i] == '\r' {
				i++
			} else {
				break
			}
		}
	}
	parse = func() (sexpr, error) {
		skip()
		if i >= len(src) {
			return sexpr{}, fmt.Errorf("eof")
		}
		if src[i] == '(' {
			i++
			s := sexpr{isList: true}
			for {
				skip()
				if i >= len(src) {
					return s, fmt.Errorf("unbalanced")
				}
				if src[i] == ')' {
					i++
					return s, nil
				}
				c, err := parse()
				if err != nil {
					return s, err
				}
				s.list = append(s.list, c)
			}
		}
		j := i
		for j < len(src) && !strings.ContainsRune(" \n\t\r()", rune(src[j])) {
			j++
		}
		a := src[i:j]
		i = j
		return sexpr{atom: a}, nil
	}
	for {
		skip()
		if i >= len(src) {
			break
		}
		s, err := parse()
		if err != nil {
			return nil, err
		}
		out = append(out, s)
	}
	return out, nil
}

// ---------------------------------------------------------------------------
// tags, ids, literals

func (u *Unit) typeTag(t types.Type) int64 {
	if v := u.tags.At(t); v != nil {
		return v.(int64)
	}
	u.tagList = append(u.tagList, t)
	id := int64(len(u.tagList))
	u.tags.Set(t, id)
	return id
}

func (u *Unit) typeByName(name string) types.Type {
	ptr := false
	if strings.HasPrefix(name, "ptr_") {
		ptr = true
		name = name[4:]
	}
	for _, p := range u.Pkgs {
		if o := p.Pkg.Scope().Lookup(name); o != nil {
			if tn, ok := o.(*types.TypeName); ok {
				if ptr {
					return types.NewPointer(tn.Type())
				}
				return tn.Type()
			}
		}
	}
	return nil
}

func (u *Unit) tagByName(name string) (int64, bool) {
	if t := u.typeByName(name); t != nil {
		return u.typeTag(t), true
	}
	return 0, false
}

func (u *Unit) fnID(f *ssa.Function) int64 {
	if id, ok := u.fnIDs[f]; ok {
		return id
	}
	u.fnList = append(u.fnList, f)
	id := int64(len(u.fnList))
	u.fnIDs[f] = id
	return id
}

func (u *Unit) strLit(s string) T {
	if t, ok := u.lits[s]; ok {
		return t
	}
	t := T{fmt.Sprintf("str!%d", len(u.litList)), SSeq}
	if len(s) <= 12 {
		t = T{fmt.Sprintf("str!x%x", s), SSeq}
	}
	u.lits[s] = t
	u.litList = append(u.litList, s)
	return t
}

func litAxioms(s string, t T) string {
	var b strings.Builder
	fmt.Fprintf(&b, "(declare-const %s BSeq)\n(assert (= (len %s) %d))\n", t.S, t.S, len(s))
	for i := 0; i < len(s); i++ {
		fmt.Fprintf(&b, "(assert (= (at %s %d) %d))\n", t.S, i, s[i])
	}
	return b.String()
}

func (u *Unit) globalByName(name string) *ssa.Global {
	for _, p := range u.Pkgs {
		if g, ok := p.Members[name].(*ssa.Global); ok {
			return g
		}
	}
	return nil
}

func (u *Unit) computeAddrTaken() {
	u.addrTaken = map[*ssa.Function]bool{}
	for _, p := range u.Pkgs {
		for fn := range ssautil.AllFunctions(u.Prog) {
			if !u.internal(fn) {
				continue
			}
			for _, b := range fn.Blocks {
				for _, in := range b.Instrs {
					if _, dbg := in.(*ssa.DebugRef); dbg {
						continue // debug information (GlobalDebug), not a use of the function value
					}
					var ops []*ssa.Value
					for _, op := range in.Operands(ops) {
						if op == nil || *op == nil {
							continue
						}
						f, ok := (*op).(*ssa.Function)
						if !ok {
							continue
						}
						if ci, ok := in.(ssa.CallInstruction); ok && ci.Common().Value == f {
							// direct call; still address-taken if also passed as an argument
							isArg := false
							for _, a := range ci.Common().Args {
								if a == f {
									isArg = true
								}
							}
							if !isArg {
								continue
							}
						}
						u.addrTaken[f] = true
					}
					if mc, ok := in.(*ssa.MakeClosure); ok {
						u.addrTaken[mc.Fn.(*ssa.Function)] = true
					}
				}
			}
		}
		_ = p
		break
	}
}

func (u *Unit) funcCandidates(sig *types.Signature) []*ssa.Function {
	var out []*ssa.Function
	for f := range u.addrTaken {
		if types.Identical(f.Signature, sig) || sameParamsResults(f.Signature, sig) {
			out = append(out, f)
		}
	}
	sort.Slice(out, func(i, j int) bool { return out[i].String() < out[j].String() })
	return out
}

func sameParamsResults(a, b *types.Signature) bool {
	return types.Identical(a.Params(), b.Params()) && types.Identical(a.Results(), b.Results()) && a.Variadic() == b.Variadic()
}

type impl struct {
	fn       *ssa.Function
	recvType types.Type
}

func (u *Unit) implementations(c *ssa.CallCommon) []impl {
	iface, ok := c.Value.Type().Underlying().(*types.Interface)
	if !ok {
		return nil
	}
	var out []impl
	for _, p := range u.Pkgs {
		names := p.Pkg.Scope().Names()
		for _, n := range names {
			tn, ok := p.Pkg.Scope().Lookup(n).(*types.TypeName)
			if !ok {
				continue
			}
			for _, t := range []types.Type{tn.Type(), types.NewPointer(tn.Type())} {
				if _, isI := tn.Type().Underlying().(*types.Interface); isI {
					continue
				}
				if !types.Implements(t, iface) {
					continue
				}
				sel := u.Prog.MethodSets.MethodSet(t).Lookup(c.Method.Pkg(), c.Method.Name())
				if sel == nil {
					continue
				}
				fn := u.Prog.MethodValue(sel)
				if fn == nil {
					continue
				}
				out = append(out, impl{fn: fn, recvType: t})
				break
			}
		}
	}
	return out
}

// pure function-typed parameters: results are uninterpreted functions of (id, env)
func (u *Unit) pureApply(fx *FX, fv VFunc, rt types.Type) Val {
	ls := layout(rt)
	ts := make([]T, len(ls))
	for i, l := range ls {
		name := fmt.Sprintf("pure!%s!%d", strings.ReplaceAll(leafSort(l).String(), " ", ""), i)
		name = strings.NewReplacer("(", "", ")", "").Replace(name)
		if !fx.pureDecl[name] {
			fx.pureDecl[name] = true
			fx.line(fmt.Sprintf("(declare-fun %s (Int Int) %s)", name, leafSort(l)))
		}
		ts[i] = app(leafSort(l), name, fv.Id, fv.Env)
	}
	fx.assume(tTrue, leafFacts(rt, ts))
	v, _ := unflatten(rt, ts)
	return v
}

func (u *Unit) pureApplyIdx(fx *FX, fv VFunc, idx int, c ECall) Val {
	// type of the function value is not known here; callers use apply0/apply1 with (string, error) results
	rt := types.NewTuple(types.NewVar(token.NoPos, nil, "", types.Typ[types.String]), types.NewVar(token.NoPos, nil, "", types.Universe.Lookup("error").Type()))
	v := u.pureApply(fx, fv, rt).(VTuple)
	return v.E[idx]
}

// ---------------------------------------------------------------------------
// concrete interpretation of package initialisers

type cval interface{}
type cint struct{ v *big.Int }
type cbool struct{ v bool }
type cstr struct{ v string }
type cref struct {
	obj *cobj
	off int64
}
type cfn struct{ fn *ssa.Function }
type cmapref struct{ m *cmap }
type copaque struct{}

type cobj struct {
	slots []cval
	name  string
	typ   types.Type
}

type cmap struct {
	keys []cval
	vals [][]cval
	vt   types.Type
	kt   types.Type
	obj  *cobj
}

func (u *Unit) newObj(n int64, name string, t types.Type) *cobj {
	o := &cobj{slots: make([]cval, n), name: name, typ: t}
	if t != nil {
		zs := czero(t)
		copy(o.slots, zs)
	}
	u.objList = append(u.objList, o)
	u.objIDs[o] = int64(len(u.objList))
	return o
}

func czero(t types.Type) []cval {
	var out []cval
	for _, l := range layout(t) {
		switch l.kind {
		case lkBool:
			out = append(out, cbool{false})
		case lkStr:
			out = append(out, cstr{""})
		case lkRef:
			out = append(out, cref{nil, 0})
		default:
			out = append(out, cint{big.NewInt(0)})
		}
	}
	// pointer/slice/iface leaves: (ref, off, ...) — a nil ref is cref{nil}; offsets are ints
	return out
}

func (u *Unit) globalObj(g *ssa.Global) *cobj {
	if o, ok := u.globals[g]; ok {
		return o
	}
	et := g.Type().(*types.Pointer).Elem()
	var o *cobj
	if u.internalPkg(g.Pkg) {
		o = u.newObj(sizeOf(et), g.Name(), et)
	} else {
		o = u.newObj(sizeOf(et), g.Pkg.Pkg.Name()+"."+g.Name(), nil) // opaque contents
		for i := range o.slots {
			o.slots[i] = copaque{}
		}
	}
	u.globals[g] = o
	return o
}

func (u *Unit) internalPkg(p *ssa.Package) bool {
	for _, q := range u.Pkgs {
		if q == p {
			return true
		}
	}
	return false
}

func (u *Unit) globalRef(g *ssa.Global) T { return num(u.objIDs[u.globalObj(g)]) }

func (u *Unit) interpretInit(p *ssa.Package) {
	fn := p.Func("init")
	if fn == nil || len(fn.Blocks) == 0 {
		return
	}
	regs := map[ssa.Value][]cval{}
	get := func(v ssa.Value) []cval {
		switch x := v.(type) {
		case *ssa.Const:
			return cconst(x)
		case *ssa.Global:
			return []cval{cref{u.globalObj(x), 0}, cint{big.NewInt(0)}}
		case *ssa.Function:
			return []cval{cfn{x}, cref{nil, 0}}
		}
		if r, ok := regs[v]; ok {
			return r
		}
		n := len(layout(v.Type()))
		out := make([]cval, n)
		for i := range out {
			out[i] = copaque{}
		}
		return out
	}
	ptrOf := func(v ssa.Value) (cref, bool) {
		r := get(v)
		if len(r) >= 2 {
			if cr, ok := r[0].(cref); ok && cr.obj != nil {
				if off, ok := r[1].(cint); ok {
					return cref{cr.obj, off.v.Int64()}, true
				}
			}
		}
		return cref{}, false
	}
	// straight-line: with BareInits the init function is a single chain of blocks
	seen := map[*ssa.BasicBlock]bool{}
	b := fn.Blocks[0]
	for b != nil && !seen[b] {
		seen[b] = true
		for _, in := range b.Instrs {
			switch x := in.(type) {
			case *ssa.Alloc:
				et := x.Type().(*types.Pointer).Elem()
				o := u.newObj(sizeOf(et), "init."+x.Comment, et)
				regs[x] = []cval{cref{o, 0}, cint{big.NewInt(0)}}
			case *ssa.FieldAddr:
				if p, ok := ptrOf(x.X); ok {
					st := x.X.Type().Underlying().(*types.Pointer).Elem().Underlying().(*types.Struct)
					regs[x] = []cval{cref{p.obj, 0}, cint{big.NewInt(p.off + fieldOffset(st, x.Field))}}
				}
			case *ssa.IndexAddr:
				if p, ok := ptrOf(x.X); ok {
					if c, ok := x.Index.(*ssa.Const); ok {
						if at, ok := x.X.Type().Underlying().(*types.Pointer).Elem().Underlying().(*types.Array); ok {
							idx, _ := constant.Int64Val(c.Value)
							regs[x] = []cval{cref{p.obj, 0}, cint{big.NewInt(p.off + idx*sizeOf(at.Elem()))}}
						}
					}
				}
			case *ssa.Store:
				if p, ok := ptrOf(x.Addr); ok {
					vs := get(x.Val)
					for i, v := range vs {
						if int(p.off)+i < len(p.obj.slots) {
							p.obj.slots[int(p.off)+i] = v
						}
					}
				}
			case *ssa.UnOp:
				if x.Op == token.MUL {
					if p, ok := ptrOf(x.X); ok {
						n := int(sizeOf(x.Type()))
						out := make([]cval, n)
						for i := 0; i < n; i++ {
							if int(p.off)+i < len(p.obj.slots) {
								out[i] = p.obj.slots[int(p.off)+i]
							} else {
								out[i] = copaque{}
							}
						}
						regs[x] = out
					}
				}
			case *ssa.MakeMap:
				mt := x.Type().Underlying().(*types.Map)
				m := &cmap{vt: mt.Elem(), kt: mt.Key()}
				m.obj = u.newObj(1, "map", nil)
				m.obj.slots[0] = cmapref{m}
				regs[x] = []cval{cref{m.obj, 0}}
			case *ssa.MapUpdate:
				r := get(x.Map)
				if cr, ok := r[0].(cref); ok && cr.obj != nil {
					if mr, ok := cr.obj.slots[0].(cmapref); ok {
						k := get(x.Key)
						if len(k) == 1 {
							mr.m.keys = append(mr.m.keys, k[0])
							mr.m.vals = append(mr.m.vals, get(x.Value))
						}
					}
				}
			case *ssa.Call:
				rt := x.Type()
				n := len(layout(rt))
				out := make([]cval, n)
				for i := range out {
					out[i] = copaque{}
				}
				if callee := x.Call.StaticCallee(); callee != nil && callee.String() == "errors.New" {
					// a distinct non-nil error value: (tag, box) with a fresh box object
					o := u.newObj(1, "error", nil)
					o.slots[0] = copaque{}
					out = []cval{cint{big.NewInt(u.typeTag(errorStringType(u.Prog)))}, cref{o, 0}}
				}
				regs[x] = out
			case *ssa.MakeInterface:
				o := u.newObj(sizeOf(x.X.Type()), "box", nil)
				copy(o.slots, get(x.X))
				regs[x] = []cval{cint{big.NewInt(u.typeTag(x.X.Type()))}, cref{o, 0}}
			case *ssa.Convert, *ssa.ChangeType:
				var src ssa.Value
				if c, ok := x.(*ssa.Convert); ok {
					src = c.X
				} else {
					src = x.(*ssa.ChangeType).X
				}
				regs[x.(ssa.Value)] = get(src)
			case *ssa.Slice:
				if p, ok := ptrOf(x.X); ok && x.Low == nil && x.High == nil {
					if at, ok := x.X.Type().Underlying().(*types.Pointer).Elem().Underlying().(*types.Array); ok {
						n := big.NewInt(at.Len())
						// slice leaves are (ref, off, len, cap): the ref leaf carries the object, the off leaf the offset
						regs[x] = []cval{cref{p.obj, 0}, cint{big.NewInt(p.off)}, cint{n}, cint{n}}
					}
				}
			}
		}
		if len(b.Succs) == 1 {
			b = b.Succs[0]
		} else if len(b.Succs) == 2 {
			b = b.Succs[1] // init$guard false -> init.start
			if len(b.Instrs) > 0 {
				// choose the branch that is not the immediate return
				if _, isRet := b.Instrs[0].(*ssa.Return); isRet {
					b = fn.Blocks[0].Succs[0]
				}
			}
		} else {
			b = nil
		}
	}
}

func errorStringType(prog *ssa.Program) types.Type {
	if p := prog.ImportedPackage("errors"); p != nil {
		if tn, ok := p.Pkg.Scope().Lookup("errorString").(*types.TypeName); ok {
			return types.NewPointer(tn.Type())
		}
	}
	return types.Typ[types.Int]
}

func cconst(c *ssa.Const) []cval {
	t := c.Type()
	if c.Value == nil {
		return czero(t)
	}
	if b, ok := t.Underlying().(*types.Basic); ok {
		switch {
		case b.Info()&types.IsBoolean != 0:
			return []cval{cbool{constant.BoolVal(c.Value)}}
		case b.Info()&types.IsString != 0:
			return []cval{cstr{constant.StringVal(c.Value)}}
		case b.Info()&types.IsInteger != 0:
			bi, _ := new(big.Int).SetString(c.Value.ExactString(), 10)
			return []cval{cint{bi}}
		}
	}
	return []cval{copaque{}}
}

// assumeGlobals asserts the initial contents of the package-level objects a function can reach.
func (u *Unit) assumeGlobals(fx *FX, st *State) {
	var roots []*cobj
	seenG := map[*ssa.Global]bool{}
	for _, b := range fx.fn.Blocks {
		for _, in := range b.Instrs {
			var ops []*ssa.Value
			for _, op := range in.Operands(ops) {
				if op == nil || *op == nil {
					continue
				}
				if g, ok := (*op).(*ssa.Global); ok && !seenG[g] {
					seenG[g] = true
					roots = append(roots, u.globalObj(g))
				}
			}
		}
	}
	// contracts may name globals too
	if fx.fc != nil {
		for _, g := range fx.fc.globalsNamed(u) {
			if !seenG[g] {
				seenG[g] = true
				roots = append(roots, u.globalObj(g))
			}
		}
	}
	isInit := fx.fn.Name() == "init"
	seen := map[*cobj]bool{}
	var visit func(o *cobj, depth int)
	visit = func(o *cobj, depth int) {
		if seen[o] || depth > 6 {
			return
		}
		seen[o] = true
		ref := num(u.objIDs[o])
		fx.assume(tTrue, sel(st.Alloc, ref))
		fx.nonNil[ref.S] = true
		if isInit {
			return
		}
		if o.typ == nil && (o.name == "base32.StdEncoding" || o.name == "base32.HexEncoding" || o.name == "binary.BigEndian") {
			// package-level encodings of the standard library are initialised to non-nil values
			fx.assume(tTrue, gt(sel(sel(st.H, ref), num(0)), num(0)))
		}
		if len(o.slots) > 64 {
			// large tables are asserted lazily by the instructions that read them
		}
		for i, s := range o.slots {
			idx := num(int64(i))
			switch v := s.(type) {
			case cint:
				fx.assume(tTrue, eq(sel(sel(st.H, ref), idx), bigNum(v.v)))
			case cbool:
				fx.assume(tTrue, eq(sel(sel(st.H, ref), idx), boolToInt(map[bool]T{true: tTrue, false: tFalse}[v.v])))
			case cstr:
				fx.assume(tTrue, app(SBool, "=", sel(sel(st.Hs, ref), idx), fx.strLit(v.v)))
			case cref:
				if v.obj == nil {
					fx.assume(tTrue, eq(sel(sel(st.H, ref), idx), num(0)))
				} else {
					fx.assume(tTrue, eq(sel(sel(st.H, ref), idx), num(u.objIDs[v.obj])))
					if _, isMap := v.obj.slots0Map(); !isMap {
						visit(v.obj, depth+1)
					} else {
						fx.assume(tTrue, sel(st.Alloc, num(u.objIDs[v.obj])))
					}
				}
			case cfn:
				fx.assume(tTrue, eq(sel(sel(st.H, ref), idx), num(u.fnID(v.fn))))
			}
		}
	}
	for _, o := range roots {
		visit(o, 0)
	}
}

func (o *cobj) slots0Map() (*cmap, bool) {
	if len(o.slots) == 1 {
		if mr, ok := o.slots[0].(cmapref); ok {
			return mr.m, true
		}
	}
	return nil, false
}

func (fc *FuncContract) globalsNamed(u *Unit) []*ssa.Global {
	var out []*ssa.Global
	var walk func(e Expr)
	walk = func(e Expr) {
		switch x := e.(type) {
		case EIdent:
			if g := u.globalByName(x.Name); g != nil {
				out = append(out, g)
			}
		case EUn:
			walk(x.X)
		case EBin:
			walk(x.X)
			walk(x.Y)
		case ECond:
			walk(x.C)
			walk(x.A)
			walk(x.B)
		case ECall:
			for _, a := range x.Args {
				walk(a)
			}
		case EIndex:
			walk(x.X)
			walk(x.I)
		case ESel:
			walk(x.X)
		case EQuant:
			walk(x.Body)
		case ELet:
			walk(x.E)
			walk(x.Body)
		case ESliceE:
			walk(x.X)
		}
	}
	for _, l := range fc.Lets {
		walk(l.E)
	}
	for _, c := range fc.Requires {
		walk(c.E)
	}
	for _, c := range fc.Ensures {
		walk(c.E)
	}
	for _, lc := range fc.Loops {
		for _, c := range lc.Inv {
			walk(c.E)
		}
	}
	return out
}

// ---------------------------------------------------------------------------
// maps

// mapOf finds the concrete initial map behind a map value, if it was loaded from a package-level variable.
func (u *Unit) mapOf(fx *FX, m VMap) *cmap {
	if id, ok := isLit(m.Ref); ok {
		if id >= 1 && id <= int64(len(u.objList)) {
			cm, _ := u.objList[id-1].slots0Map()
			return cm
		}
	}
	if cm, ok := fx.mapOrigin[m.Ref.S]; ok {
		return cm
	}
	return nil
}

// Maps with string keys and string values (map[string]string, url.Values through Set/Get) carry an
// abstract content value in string-heap slot 0 of the map object: qempty, qset(m, k, v); it is read
// with qhas(m, k) / qval(m, k) (axioms in the spec library).
func strStrMap(t types.Type) bool {
	m, ok := t.Underlying().(*types.Map)
	if !ok {
		return false
	}
	kb, ok := m.Key().Underlying().(*types.Basic)
	if !ok || kb.Info()&types.IsString == 0 {
		return false
	}
	switch e := m.Elem().Underlying().(type) {
	case *types.Basic:
		return e.Info()&types.IsString != 0
	case *types.Slice: // url.Values: map[string][]string, used through Set/Get only
		eb, ok := e.Elem().Underlying().(*types.Basic)
		return ok && eb.Info()&types.IsString != 0
	}
	return false
}

func (fx *FX) mapGhost(st *State, ref T) T { return sel(sel(fx.rHs(st, ref), ref), num(0)) }

func (fx *FX) setMapGhost(st *State, ref T, v T) {
	st.Hs = fx.def("Hs", sto(st.Hs, ref, sto(sel(st.Hs, ref), num(0), v)))
}

func (u *Unit) mapMake(fx *FX, st *State, ref T, x *ssa.MakeMap) {
	if strStrMap(x.Type()) {
		fx.setMapGhost(st, ref, T{"qempty", SSeq})
	}
}

func (u *Unit) ckeyTerm(fx *FX, k cval) (T, bool) {
	switch v := k.(type) {
	case cint:
		return bigNum(v.v), true
	case cstr:
		return fx.strLit(v.v), true
	case cbool:
		if v.v {
			return tTrue, true
		}
		return tFalse, true
	}
	return T{}, false
}

func (u *Unit) cvalTerm(fx *FX, v cval, l leaf) (T, bool) {
	switch x := v.(type) {
	case cint:
		return bigNum(x.v), true
	case cbool:
		if x.v {
			return tTrue, true
		}
		return tFalse, true
	case cstr:
		return fx.strLit(x.v), true
	case cref:
		if x.obj == nil {
			return num(0), true
		}
		return num(u.objIDs[x.obj]), true
	case cfn:
		return num(u.fnID(x.fn)), true
	}
	return T{}, false
}

func (u *Unit) mapLookup(fx *FX, st *State, m VMap, x *ssa.Lookup) {
	vt := x.X.Type().Underlying().(*types.Map).Elem()
	cm := u.mapOf(fx, m)
	key := fx.val(x.Index)
	fx.labelCopy(x, x.X)
	if cm == nil {
		fx.note("lookup in a map that is not a package-level literal: value unconstrained")
		v := fx.havoc("mapval", vt, tTrue)
		if x.CommaOk {
			fx.vals[x] = VTuple{E: []Val{v, VBool{fx.fresh("mapok", SBool)}}}
		} else {
			fx.vals[x] = v
		}
		return
	}
	keyT := flatten(key)[0]
	v, has := u.mapChain(fx, cm, keyT, vt)
	if x.CommaOk {
		fx.vals[x] = VTuple{E: []Val{v, VBool{has}}}
	} else {
		fx.vals[x] = v
	}
}

// mapChain: lookup of key in a concrete (literal) map as nested ite over its entries.
func (u *Unit) mapChain(fx *FX, cm *cmap, keyT T, vt types.Type) (Val, T) {
	ck := cm.obj.name + "|" + keyT.S
	if c, ok := fx.chainCache[ck]; ok {
		return c.v, c.has
	}
	ls := layout(vt)
	zero := zeroLeaves(vt)
	res := make([]T, len(ls))
	copy(res, zero)
	has := tFalse
	// a key that mentions a quantified variable cannot be named by a top-level definition
	bound := strings.Contains(keyT.S, "!q")
	def := func(hint string, t T) T {
		if bound {
			return t
		}
		return fx.def(hint, t)
	}
	for i := len(cm.keys) - 1; i >= 0; i-- {
		kt, ok := u.ckeyTerm(fx, cm.keys[i])
		if !ok {
			continue
		}
		c := def("keyeq", eq(keyT, kt))
		has = or(c, has)
		for j := range ls {
			vt2, ok := u.cvalTerm(fx, cm.vals[i][j], ls[j])
			if !ok {
				vt2 = fx.fresh("mapleaf", leafSort(ls[j]))
			}
			res[j] = ite(c, vt2, res[j])
		}
	}
	for j := range res {
		res[j] = def("mapv", res[j])
	}
	v, _ := unflatten(vt, res)
	h := def("maphas", has)
	if fx.chainCache == nil {
		fx.chainCache = map[string]chainRes{}
	}
	fx.chainCache[ck] = chainRes{v, h}
	return v, h
}

type chainRes struct {
	v   Val
	has T
}

// globalMap returns the concrete literal map stored in a package-level variable.
func (u *Unit) globalMap(name string) (*cmap, types.Type) {
	g := u.globalByName(name)
	if g == nil {
		return nil, nil
	}
	o := u.globalObj(g)
	if len(o.slots) == 1 {
		if cr, ok := o.slots[0].(cref); ok && cr.obj != nil {
			if cm, ok := cr.obj.slots0Map(); ok {
				return cm, cm.vt
			}
		}
	}
	return nil, nil
}

func (u *Unit) mapUpdate(fx *FX, st *State, m VMap, x *ssa.MapUpdate) {
	if _, lit := isLit(m.Ref); lit || !fx.knownFresh[m.Ref.S] {
		// writing a map that this call did not create
		fx.oblige("own:global-write", "map", st.PC, not(sel(fx.entry.Alloc, m.Ref)), x.Pos(), "map update on a map not created by this call")
	}
	if strStrMap(x.Map.Type()) {
		if k, ok := fx.val(x.Key).(VStr); ok {
			if v, ok := fx.val(x.Value).(VStr); ok {
				fx.setMapGhost(st, m.Ref, app(SSeq, "qset", fx.mapGhost(st, m.Ref), k.T, v.T))
				return
			}
		}
	}
	fx.note("contents of locally built maps (other than string->string) are not tracked")
}

func (u *Unit) mapLen(fx *FX, st *State, m VMap) Val {
	if cm := u.mapOf(fx, m); cm != nil {
		return VInt{num(int64(len(cm.keys)))}
	}
	n := fx.fresh("maplen", SInt)
	fx.assume(tTrue, ge(n, num(0)))
	return VInt{n}
}

func (u *Unit) mapNext(fx *FX, st *State, m VMap, x *ssa.Next, ok T, k, v Val) {
	cm := u.mapOf(fx, m)
	if cm == nil {
		if r, isR := x.Iter.(*ssa.Range); isR && strStrMap(r.X.Type()) {
			if kv, isK := k.(VStr); isK {
				g := fx.mapGhost(st, m.Ref)
				fx.assume(ok, app(SBool, "qhas", g, kv.T))
				if vv, isV := v.(VStr); isV {
					fx.assume(ok, eq(vv.T, app(SSeq, "qval", g, kv.T)))
				}
				// range visits every key exactly once: the produced key was not visited before, and when the
				// iterator is exhausted every key has been visited
				if li := fx.loops[x.Block()]; li != nil && li.seenHdr.S != "" {
					fx.assume(ok, not(sel(li.seenHdr, kv.T)))
					fx.line("(assert (=> (not " + ok.S + ") (forall ((j!r BSeq)) (! (=> (qhas " + g.S + " j!r) (select " + li.seenHdr.S + " j!r)) :pattern ((qhas " + g.S + " j!r)) :pattern ((select " + li.seenHdr.S + " j!r))))))")
				}
			}
		}
		return
	}
	// the key is one of the literal keys
	if kv, isv := k.(VStr); isv {
		var alts []T
		for _, ck := range cm.keys {
			if kt, ok2 := u.ckeyTerm(fx, ck); ok2 {
				alts = append(alts, eq(kv.T, kt))
			}
		}
		fx.assume(ok, or(alts...))
		// range visits every key exactly once
		if li := fx.loops[x.Block()]; li != nil && li.seenHdr.S != "" {
			fx.assume(ok, not(sel(li.seenHdr, kv.T)))
			fx.assume(ok, lt(li.countHdr, num(int64(len(cm.keys)))))
			var all []T
			for _, ck := range cm.keys {
				if kt, ok2 := u.ckeyTerm(fx, ck); ok2 {
					all = append(all, sel(li.seenHdr, kt))
				}
			}
			fx.assume(not(ok), and(all...))
			fx.assume(not(ok), eq(li.countHdr, num(int64(len(cm.keys)))))
		}
	}
}

// coveredByInlining: fn is a top-level unexported function without contract, loop-free and small (so every call to it
// is executed in place by the caller's verification), never used as a value, and each of its callers is a function
// that is verified on its own account (it has a contract or is exported).
func (u *Unit) coveredByInlining(fn *ssa.Function) bool {
	if fn.Pkg == nil || fn.Parent() != nil || fn.Signature.Recv() != nil || ast.IsExported(fn.Name()) || fn.Name() == "init" || fn.Name() == "main" {
		return false
	}
	if u.contractOf(fn) != nil || u.addrTaken[fn] || len(fn.Blocks) > 40 || u.modelFor(fn) != nil {
		return false // (a function with an assumed model is not inlined at its call sites)
	}
	for _, b := range fn.Blocks {
		for _, s := range b.Succs {
			if s.Dominates(b) {
				return false
			}
		}
		for _, in := range b.Instrs {
			switch in.(type) {
			case *ssa.Go, *ssa.Select, *ssa.Send:
				return false
			}
		}
	}
	if u.callers == nil {
		u.callers = map[*ssa.Function][]*ssa.Function{}
		for f := range ssautil.AllFunctions(u.Prog) {
			if !u.internal(f) {
				continue
			}
			for _, b := range f.Blocks {
				for _, in := range b.Instrs {
					if ci, ok := in.(ssa.CallInstruction); ok {
						if cal := ci.Common().StaticCallee(); cal != nil && u.internal(cal) {
							u.callers[cal] = append(u.callers[cal], f)
						}
					}
				}
			}
		}
	}
	cs := u.callers[fn]
	if len(cs) == 0 {
		return false
	}
	for _, c := range cs {
		root := c
		for root.Parent() != nil {
			root = root.Parent()
		}
		if u.contractOf(c) == nil && u.contractOf(root) == nil && !ast.IsExported(root.Name()) {
			return false
		}
	}
	return true
}
