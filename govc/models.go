package main

// Assumed contracts ("models") of functions outside the verified units, and of
// the one trusted in-unit function (unsafeString). Every model is part of the
// trusted base and is listed in the evidence of each property that uses it.

import (
	"fmt"
	"go/constant"
	"go/token"
	"go/types"

	"golang.org/x/tools/go/ssa"
)

type CallCtx struct {
	V      ssa.Value
	C      *ssa.CallCommon
	Pos    token.Pos
	Args   []Val
	Callee *ssa.Function
	Recv   VIface
}

type Model struct {
	Name   string
	Desc   string
	Writes []int // argument indices written through (-1 = receiver)
	Apply  func(fx *FX, st *State, c *CallCtx) Val
	used   bool
}

var hmacTagType = types.NewNamed(types.NewTypeName(token.NoPos, nil, "hmac!state", nil), types.NewStruct(nil, nil), nil)
var fmtErrTagType = types.NewNamed(types.NewTypeName(token.NoPos, nil, "fmt!error", nil), types.NewStruct(nil, nil), nil)

func (u *Unit) modelFor(fn *ssa.Function) *Model {
	m := u.models[fn.String()]
	return m
}

func (u *Unit) invokeModel(c *ssa.CallCommon) *Model {
	key := "invoke " + c.Value.Type().String() + "." + c.Method.Name()
	return u.models[key]
}

func (u *Unit) reg(name, desc string, writes []int, f func(fx *FX, st *State, c *CallCtx) Val) {
	u.models[name] = &Model{Name: name, Desc: desc, Writes: writes, Apply: func(fx *FX, st *State, c *CallCtx) Val {
		fx.usedModels[name] = true
		return f(fx, st, c)
	}}
}

func seqOfBytes(fx *FX, st *State, s VSlice) T {
	return app(SSeq, "view", sel(fx.rH(st, s.Ref), s.Ref), s.Off, s.Len)
}

// freshBytes allocates a fresh byte slice whose contents are the sequence s.
func freshBytes(fx *FX, st *State, s T, hint string) VSlice {
	r := fx.allocObj(st, hint, nil)
	n := fx.def("n", app(SInt, "len", s))
	arr := fx.fresh(hint+"_arr", SIArr)
	fx.assume(tTrue, eq(app(SSeq, "view", arr, num(0), n), s))
	// byte range of the stored elements
	st.H = fx.def("H", sto(st.H, r, arr))
	return VSlice{Ref: r, Off: num(0), Len: n, Cap: n, Elem: types.Typ[types.Uint8]}
}

func nilError() Val { return VIface{Tag: num(0), Box: num(0)} }

func (fx *FX) freshError(st *State, hint string) VIface {
	box := fx.allocObj(st, "errbox", nil)
	return VIface{Tag: num(fx.u.typeTag(fmtErrTagType)), Box: box}
}

// condError returns an error value that is nil iff ok.
func (fx *FX) condError(st *State, ok T, hint string) VIface {
	e := fx.freshError(st, hint)
	return VIface{Tag: fx.def("errtag", ite(ok, num(0), e.Tag)), Box: fx.def("errbox", ite(ok, num(0), e.Box))}
}

func (u *Unit) poolElemType(fx *FX, pool Val) types.Type {
	p, ok := pool.(VPtr)
	if !ok {
		return nil
	}
	id, ok := isLit(p.Ref)
	if !ok || id < 1 || id > int64(len(u.objList)) {
		return nil
	}
	o := u.objList[id-1]
	for _, s := range o.slots {
		if f, ok := s.(cfn); ok && f.fn != nil {
			for _, b := range f.fn.Blocks {
				for _, in := range b.Instrs {
					if r, ok := in.(*ssa.Return); ok && len(r.Results) == 1 {
						if mi, ok := r.Results[0].(*ssa.MakeInterface); ok {
							return mi.X.Type()
						}
					}
				}
			}
		}
	}
	return nil
}

func (u *Unit) registerModels() {
	u.models = map[string]*Model{}

	u.reg("(*sync.Pool).Get", "returns a non-nil value of the dynamic type produced by the pool's New function; the object (and, for *[]T, the slice's backing store) is exclusively owned by the caller, disjoint from every object that existed at the call, with arbitrary contents, length and capacity", nil,
		func(fx *FX, st *State, c *CallCtx) Val {
			et := u.poolElemType(fx, c.Args[0])
			if et == nil {
				fx.note("sync.Pool.Get on a pool whose New function is unknown: result unconstrained")
				return fx.havoc("poolget", c.C.Signature().Results().At(0).Type(), tTrue)
			}
			box := fx.allocObj(st, "poolbox", nil)
			tag := num(u.typeTag(et))
			if pt, ok := et.Underlying().(*types.Pointer); ok {
				obj := fx.newRef()
				delete(fx.knownFresh, obj.S) // pooled, not fresh: ownership is tracked by the Pooled/Released ghost sets
				fx.assume(tTrue, not(sel(st.Alloc, obj)))
				st.Alloc = fx.def("alloc", sto(st.Alloc, obj, tTrue))
				st.Pooled = fx.def("pooled", sto(st.Pooled, obj, tTrue))
				fx.storeLeaves(st, box, num(0), et, []T{obj, num(0)})
				if _, isSlice := pt.Elem().Underlying().(*types.Slice); isSlice {
					// the header stored in the pooled object refers to an owned backing object
					hdr := fx.loadLeaves(st, obj, num(0), pt.Elem())
					fx.assume(tTrue, leafFacts(pt.Elem(), hdr))
					back := hdr[0]
					bid := fx.newRef()
					delete(fx.knownFresh, bid.S)
					fx.assume(tTrue, or(eq(back, num(0)), and(not(sel(st.Alloc, back)), eq(back, bid))))
					st.Alloc = fx.def("alloc", ite(eq(back, num(0)), st.Alloc, sto(st.Alloc, back, tTrue)))
					st.Pooled = fx.def("pooled", ite(eq(back, num(0)), st.Pooled, sto(st.Pooled, back, tTrue)))
				}
			} else {
				fx.note("sync.Pool of non-pointer values: contents unconstrained")
			}
			return VIface{Tag: tag, Box: box}
		})

	u.reg("(*sync.Pool).Put", "requires the value to have the pool's element type and to be owned by the caller (obtained from Get or allocated by this call); ownership ends", nil,
		func(fx *FX, st *State, c *CallCtx) Val {
			et := u.poolElemType(fx, c.Args[0])
			iv, ok := c.Args[1].(VIface)
			if et == nil || !ok {
				fx.note("sync.Pool.Put on unknown pool abstracted")
				return VUnit{}
			}
			fx.oblige("own:pool-put", "type", st.PC, eq(iv.Tag, num(u.typeTag(et))), c.Pos, "value put into the pool must have the pool's element type")
			if pt, ok := et.Underlying().(*types.Pointer); ok {
				pl := fx.loadLeaves(st, iv.Box, num(0), et)
				obj := fx.def("putobj", pl[0])
				fx.oblige("own:pool-put", "owned", st.PC, or(sel(st.Pooled, obj), not(sel(fx.entry.Alloc, obj))), c.Pos, "value put into the pool must be owned by this call")
				fx.oblige("own:pool-put", "once", st.PC, not(sel(st.Released, obj)), c.Pos, "a value is handed back to the pool at most once (a second Put would give the same buffer to two owners)")
				st.Released = fx.def("released", sto(st.Released, obj, tTrue))
				if _, isSlice := pt.Elem().Underlying().(*types.Slice); isSlice {
					hdr := fx.loadLeaves(st, obj, num(0), pt.Elem())
					back := fx.def("putback", hdr[0])
					fx.oblige("own:pool-put", "backing", st.PC, or(eq(back, num(0)), sel(st.Pooled, back), not(sel(fx.entry.Alloc, back))), c.Pos, "backing store of a pooled slice must be owned by this call")
					st.Released = fx.def("released", ite(eq(back, num(0)), st.Released, sto(st.Released, back, tTrue)))
				}
			}
			return VUnit{}
		})

	u.reg("(encoding/binary.bigEndian).PutUint64", "requires len(b) >= 8; writes the 8-byte big-endian representation of v to b[0:8] and nothing else", []int{1},
		func(fx *FX, st *State, c *CallCtx) Val {
			b := c.Args[1].(VSlice)
			v := c.Args[2].(VInt).T
			fx.oblige("pre", "PutUint64.len", st.PC, ge(b.Len, num(8)), c.Pos, "PutUint64 needs 8 bytes")
			fx.writeCheck(st, b.Ref, rootOf(c.C.Args[1]), c.Pos, "PutUint64")
			arr := sel(st.H, b.Ref)
			for k := int64(0); k < 8; k++ {
				arr = sto(arr, add(b.Off, num(k)), emod(ediv(v, pow2(uint(8*(7-k)))), num(256)))
			}
			st.H = fx.def("H", sto(st.H, b.Ref, arr))
			// derived fact, proved once and then available: the written bytes are be8(v)
			fx.oblige("lemma", "PutUint64.be8", st.PC, eq(app(SSeq, "view", sel(st.H, b.Ref), b.Off, num(8)), app(SSeq, "be8", v)), c.Pos, "bytes written by PutUint64 are be8(v)")
			return VUnit{}
		})

	u.reg("crypto/hmac.New", "returns a fresh HMAC state for hash h (sha1.New/sha256.New/sha512.New -> algorithm 0/1/2) keyed with a copy of key, with empty message; does not retain or modify key", nil,
		func(fx *FX, st *State, c *CallCtx) Val {
			h := c.Args[0].(VFunc)
			key := c.Args[1].(VSlice)
			alg := fx.fresh("alg", SInt)
			known := tFalse
			for i, name := range []string{"crypto/sha1.New", "crypto/sha256.New", "crypto/sha512.New"} {
				for _, f := range u.fnList {
					if f.String() == name {
						g := eq(h.Id, num(u.fnID(f)))
						fx.assume(tTrue, implies(g, eq(alg, num(int64(i)))))
						known = or(known, g)
					}
				}
			}
			fx.assume(tTrue, implies(not(known), or(lt(alg, num(0)), gt(alg, num(2)))))
			box := fx.allocObj(st, "hmac", nil)
			sa := sel(st.Hs, box)
			sa = sto(sto(sa, num(0), seqOfBytes(fx, st, key)), num(1), T{"empty", SSeq})
			st.Hs = fx.def("Hs", sto(st.Hs, box, sa))
			st.H = fx.def("H", sto(st.H, box, sto(sel(st.H, box), num(0), alg)))
			fx.labelSet(c.V, labelOf(fx, c.C.Args[1]))
			return VIface{Tag: num(u.typeTag(hmacTagType)), Box: box}
		})

	u.reg("invoke hash.Hash.Write", "appends p to the message of the HMAC state; never fails; does not retain or modify p", []int{-1},
		func(fx *FX, st *State, c *CallCtx) Val {
			p := c.Args[0].(VSlice)
			fx.oblige("pre", "hash.Write.state", st.PC, eq(c.Recv.Tag, num(u.typeTag(hmacTagType))), c.Pos, "receiver must be an HMAC state created by hmac.New")
			fx.readCheck(st, p.Ref, c.Pos, "hash.Write argument")
			fx.writeCheck(st, c.Recv.Box, nil, c.Pos, "hash state")
			sa := sel(st.Hs, c.Recv.Box)
			sa = sto(sa, num(1), app(SSeq, "cat", sel(sa, num(1)), seqOfBytes(fx, st, p)))
			st.Hs = fx.def("Hs", sto(st.Hs, c.Recv.Box, sa))
			fx.labelJoinInto(c.C.Value, c.C.Args[0])
			return VTuple{E: []Val{VInt{p.Len}, nilError()}}
		})

	u.reg("invoke hash.Hash.Sum", "with a nil argument returns a fresh slice holding HMAC(alg, key, msg) of length 20/32/64; the state is unchanged", nil,
		func(fx *FX, st *State, c *CallCtx) Val {
			b := c.Args[0].(VSlice)
			fx.oblige("pre", "hash.Sum.state", st.PC, eq(c.Recv.Tag, num(u.typeTag(hmacTagType))), c.Pos, "receiver must be an HMAC state created by hmac.New")
			fx.oblige("pre", "hash.Sum.nil", st.PC, eq(b.Len, num(0)), c.Pos, "Sum is modelled for an empty prefix only")
			alg := sel(sel(st.H, c.Recv.Box), num(0))
			sa := sel(st.Hs, c.Recv.Box)
			mac := fx.def("mac", app(SSeq, "HMAC", alg, sel(sa, num(0)), sel(sa, num(1))))
			r := freshBytes(fx, st, mac, "sum")
			fx.labelSet(c.V, label{sec: true})
			return r
		})

	u.reg("crypto/subtle.ConstantTimeCompare", "returns 1 iff the two slices have equal contents (and equal length), else 0; the only sanctioned meeting point of secret-derived and caller-supplied data", nil,
		func(fx *FX, st *State, c *CallCtx) Val {
			x, y := c.Args[0].(VSlice), c.Args[1].(VSlice)
			fx.readCheck(st, x.Ref, c.Pos, "ConstantTimeCompare")
			fx.readCheck(st, y.Ref, c.Pos, "ConstantTimeCompare")
			fx.ctCompare(st, c)
			r := fx.def("ctc", ite(eq(seqOfBytes(fx, st, x), seqOfBytes(fx, st, y)), num(1), num(0)))
			fx.setBounds(r, bigZero, bigOne)
			fx.labelSet(c.V, label{})
			return VInt{r}
		})

	u.reg("strings.TrimSpace", "returns trim(s) (uninterpreted; a substring of s)", nil,
		func(fx *FX, st *State, c *CallCtx) Val {
			fx.labelCopy(c.V, c.C.Args[0])
			return VStr{app(SSeq, "trim", c.Args[0].(VStr).T)}
		})
	u.reg("strings.ToUpper", "returns upper(s) (uninterpreted); every ASCII byte of the result stems from a distinct rune of s, so len(s) >= apl(upper(s)), the length of the longest all-ASCII prefix of the result", nil,
		func(fx *FX, st *State, c *CallCtx) Val {
			s := c.Args[0].(VStr).T
			r := app(SSeq, "upper", s)
			fx.assume(tTrue, ge(app(SInt, "len", s), app(SInt, "apl", r)))
			return VStr{r}
		})
	u.reg("strings.ToLower", "returns lower(s) (uninterpreted)", nil,
		func(fx *FX, st *State, c *CallCtx) Val {
			fx.labelCopy(c.V, c.C.Args[0])
			return VStr{app(SSeq, "lower", c.Args[0].(VStr).T)}
		})
	u.reg("strings.Repeat", "requires count >= 0 (panics otherwise); returns rep(s, count) of length len(s)*count", nil,
		func(fx *FX, st *State, c *CallCtx) Val {
			n := c.Args[1].(VInt).T
			fx.oblige("pre", "strings.Repeat.count", st.PC, ge(n, num(0)), c.Pos, "strings.Repeat panics on a negative count")
			fx.labelCopy(c.V, c.C.Args[0])
			return VStr{app(SSeq, "rep", c.Args[0].(VStr).T, n)}
		})
	u.reg("strings.HasPrefix", "returns hasprefix(s, p): len(s) >= len(p) and s[0:len(p)] == p; for a constant ASCII p, hasprefix(s,p) implies apl(s) >= len(p)", nil,
		func(fx *FX, st *State, c *CallCtx) Val {
			fx.compareCheck(st, c.V, c.C.Args[0], c.C.Args[1])
			s, p := c.Args[0].(VStr).T, c.Args[1].(VStr).T
			r := fx.def("hasprefix", app(SBool, "hasprefix", s, p))
			if k, ok := c.C.Args[1].(*ssa.Const); ok && k.Value != nil {
				lit := constant.StringVal(k.Value)
				ascii := true
				for i := 0; i < len(lit); i++ {
					if lit[i] >= 128 {
						ascii = false
					}
				}
				if ascii {
					fx.assume(tTrue, implies(r, ge(app(SInt, "apl", s), num(int64(len(lit))))))
				}
			}
			return VBool{r}
		})
	u.reg("strings.TrimPrefix", "returns s without the prefix p if present, else s", nil,
		func(fx *FX, st *State, c *CallCtx) Val {
			s, p := c.Args[0].(VStr).T, c.Args[1].(VStr).T
			fx.labelCopy(c.V, c.C.Args[0])
			return VStr{ite(app(SBool, "hasprefix", s, p), app(SSeq, "sub", s, app(SInt, "len", p), app(SInt, "len", s)), s)}
		})

	u.reg("(*encoding/base32.Encoding).DecodeString", "when the receiver is syntactically base32.StdEncoding: err == nil iff stdok(s); on success the result is a fresh slice holding stddec(s); for any other receiver the result is unconstrained", nil,
		func(fx *FX, st *State, c *CallCtx) Val {
			s := c.Args[1].(VStr).T
			ok := fx.fresh("decok", SBool)
			content := fx.fresh("decoded", SSeq)
			if encKindOf(c.C.Args[0]) == "std" {
				fx.assume(tTrue, app(SBool, "=", ok, app(SBool, "stdok", s)))
				fx.assume(tTrue, implies(ok, eq(content, app(SSeq, "stddec", s))))
			} else {
				fx.note("base32 decoding with a receiver other than StdEncoding: result unconstrained")
			}
			r := freshBytes(fx, st, content, "dec")
			return VTuple{E: []Val{r, fx.condError(st, ok, "b32")}}
		})
	u.reg("(*encoding/base32.Encoding).EncodeToString", "when the receiver is syntactically base32.StdEncoding.WithPadding(base32.NoPadding): returns b32nopad(src); for StdEncoding b32std(src); otherwise unconstrained", nil,
		func(fx *FX, st *State, c *CallCtx) Val {
			src := c.Args[1].(VSlice)
			r := fx.fresh("encoded", SSeq)
			switch encKindOf(c.C.Args[0]) {
			case "nopad":
				fx.assume(tTrue, eq(r, app(SSeq, "b32nopad", seqOfBytes(fx, st, src))))
			case "std":
				fx.assume(tTrue, eq(r, app(SSeq, "b32std", seqOfBytes(fx, st, src))))
			default:
				fx.note("base32 encoding with an unrecognised receiver: result unconstrained")
			}
			return VStr{r}
		})
	u.reg("(encoding/base32.Encoding).WithPadding", "returns a fresh encoding object; recognised syntactically by its users (StdEncoding.WithPadding(NoPadding))", nil,
		func(fx *FX, st *State, c *CallCtx) Val {
			res := fx.allocObj(st, "enc", nil)
			return VPtr{Ref: res, Off: num(0), Elem: c.C.Signature().Results().At(0).Type().(*types.Pointer).Elem()}
		})

	u.reg("errors.New", "returns a fresh non-nil error", nil,
		func(fx *FX, st *State, c *CallCtx) Val {
			fx.errorText(st, c)
			return fx.freshError(st, "errors.New")
		})
	u.reg("fmt.Errorf", "returns a fresh non-nil error; total", nil,
		func(fx *FX, st *State, c *CallCtx) Val {
			fx.errorText(st, c)
			return fx.freshError(st, "fmt.Errorf")
		})
	u.reg("fmt.Sprintf", "returns some string; total", nil,
		func(fx *FX, st *State, c *CallCtx) Val {
			fx.labelVarargs(c)
			if s, ok := fx.sprintfD(st, c); ok {
				return s
			}
			return fx.havoc("sprintf", types.Typ[types.String], tTrue)
		})
	u.reg("(time.Time).Unix", "returns unixsec(wall, ext): a function of the instant only (not of the location)", nil,
		func(fx *FX, st *State, c *CallCtx) Val {
			t := flatten(c.Args[0])
			r := fx.def("unix", app(SInt, "unixsec", t[0], t[1]))
			lo, hi := typeBounds(types.Typ[types.Int64])
			fx.setBounds(r, lo, hi)
			fx.assume(tTrue, and(le(bigNum(lo), r), le(r, bigNum(hi))))
			return VInt{r}
		})

	u.reg("github.com/ja7ad/otp.unsafeString", "TRUSTED (unsafe): returns a string with the bytes of b that shares b's backing object; the object must be owned by this call and must not be written afterwards", nil,
		func(fx *FX, st *State, c *CallCtx) Val {
			b := c.Args[0].(VSlice)
			fx.oblige("own:unsafe-string", "", st.PC, and(not(sel(fx.entry.Alloc, b.Ref)), not(sel(st.Pooled, b.Ref))), c.Pos, "unsafe string view must alias only memory allocated by this call")
			st.Frozen = fx.def("frozen", sto(st.Frozen, b.Ref, tTrue))
			fx.labelCopy(c.V, c.C.Args[0])
			return VStr{fx.def("ustr", seqOfBytes(fx, st, b))}
		})
	registerMoreModels(u)
	registerRESTModels(u)
}

// encKindOf recognises, syntactically, which base32 encoding a value denotes.
func encKindOf(v ssa.Value) string {
	switch x := v.(type) {
	case *ssa.UnOp:
		if g, ok := x.X.(*ssa.Global); ok && x.Op == token.MUL && g.Pkg != nil && g.Pkg.Pkg.Path() == "encoding/base32" && g.Name() == "StdEncoding" {
			return "std"
		}
	case *ssa.Call:
		if callee := x.Call.StaticCallee(); callee != nil && callee.String() == "(encoding/base32.Encoding).WithPadding" {
			if ld, ok := x.Call.Args[0].(*ssa.UnOp); ok && ld.Op == token.MUL && encKindOf(ld.X) == "std" {
				if k, ok := x.Call.Args[1].(*ssa.Const); ok && k.Value != nil && k.Value.ExactString() == "-1" {
					return "nopad"
				}
			}
		}
	}
	return ""
}

func (u *Unit) externGlobal(pkgPath, name string) *ssa.Global {
	for _, p := range u.Prog.AllPackages() {
		if p.Pkg.Path() == pkgPath {
			if g, ok := p.Members[name].(*ssa.Global); ok {
				return g
			}
		}
	}
	return nil
}

// sprintfD: fmt.Sprintf with a constant format made of literal text, %s (string arguments) and
// %d (integer arguments) is the concatenation of the pieces, integers rendered by dec().
func (fx *FX) sprintfD(st *State, c *CallCtx) (Val, bool) {
	k, ok := c.C.Args[0].(*ssa.Const)
	if !ok || k.Value == nil {
		return nil, false
	}
	format := constant.StringVal(k.Value)
	va, ok := c.Args[1].(VSlice)
	if !ok {
		return nil, false
	}
	n, ok := isLit(va.Len)
	if !ok {
		return nil, false
	}
	// static types of the arguments: the stores into the varargs array
	argTypes := fx.varargTypes(c.C.Args[1], int(n))
	if argTypes == nil {
		return nil, false
	}
	anyT := types.NewInterfaceType(nil, nil)
	var parts []T
	lit := ""
	ai := 0
	flush := func() {
		if lit != "" {
			parts = append(parts, fx.strLit(lit))
			lit = ""
		}
	}
	for i := 0; i < len(format); i++ {
		if format[i] != '%' {
			lit += string(format[i])
			continue
		}
		if i+1 >= len(format) || ai >= int(n) {
			return nil, false
		}
		verb := format[i+1]
		i++
		el, _ := unflatten(anyT, fx.loadLeaves(st, va.Ref, add(va.Off, num(int64(ai)*2)), anyT))
		iv := el.(VIface)
		at := argTypes[ai]
		ai++
		unknownPiece := func() {
			flush()
			parts = append(parts, fx.fresh("fmtpiece", SSeq))
		}
		if _, isIface := at.Underlying().(*types.Interface); isIface || hasStringer(at) {
			unknownPiece()
			continue
		}
		switch verb {
		case 's':
			if b, ok := at.Underlying().(*types.Basic); !ok || b.Info()&types.IsString == 0 {
				unknownPiece()
				continue
			}
			flush()
			parts = append(parts, sel(sel(st.Hs, iv.Box), num(0)))
		case 'd':
			if b, ok := at.Underlying().(*types.Basic); !ok || b.Info()&types.IsInteger == 0 {
				unknownPiece()
				continue
			}
			flush()
			parts = append(parts, app(SSeq, "dec", sel(sel(st.H, iv.Box), num(0))))
		default:
			unknownPiece()
		}
	}
	flush()
	if ai != int(n) || len(parts) == 0 {
		return nil, false
	}
	r := parts[0]
	for _, p := range parts[1:] {
		r = app(SSeq, "cat", r, p)
	}
	return VStr{fx.def("sprintf", r)}, true
}

func hasStringer(t types.Type) bool {
	for _, m := range []string{"String", "Error", "Format", "GoString"} {
		if obj, _, _ := types.LookupFieldOrMethod(t, true, nil, m); obj != nil {
			if _, ok := obj.(*types.Func); ok {
				return true
			}
		}
	}
	return false
}

// varargTypes: the static types of the values stored into a varargs array `new [n]any (varargs)`.
func (fx *FX) varargTypes(v ssa.Value, n int) []types.Type {
	sl, ok := v.(*ssa.Slice)
	if !ok {
		return nil
	}
	al, ok := sl.X.(*ssa.Alloc)
	if !ok || al.Referrers() == nil {
		return nil
	}
	out := make([]types.Type, n)
	for _, r := range *al.Referrers() {
		ia, ok := r.(*ssa.IndexAddr)
		if !ok || ia.Referrers() == nil {
			continue
		}
		k, ok := ia.Index.(*ssa.Const)
		if !ok {
			return nil
		}
		idx, _ := constant.Int64Val(k.Value)
		for _, r2 := range *ia.Referrers() {
			if stt, ok := r2.(*ssa.Store); ok {
				if int(idx) < n {
					if mi, ok := stt.Val.(*ssa.MakeInterface); ok {
						out[idx] = mi.X.Type()
					} else {
						out[idx] = stt.Val.Type() // an interface value (e.g. an error): rendered as an unknown piece
					}
				}
			}
		}
	}
	for _, t := range out {
		if t == nil {
			return nil
		}
	}
	return out
}

var _ = fmt.Sprintf
