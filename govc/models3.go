package main

// Assumed contracts for the REST layer: fasthttp.RequestCtx accessors and encoding/json.
//
// Ghost request readings (uninterpreted functions of the RequestCtx object):
//   ispost(ctx) isget(ctx) reqbody(ctx) reqpath(ctx) reqquery(ctx, key)
// JSON readings of a text: jok(body, T) (Unmarshal into T succeeds), jstr/jnum/jbool/jhas(body, path).
// Ghost response state kept in the RequestCtx object:
//   int slot 0: status code     int slot 1: number of times a body was set
//   str slot 0: body text       str slot 1: content type

import (
	"fmt"
	"go/types"
	"reflect"
	"strings"

	"golang.org/x/tools/go/ssa"
)

const (
	ctxStatus = 0
	ctxNBody  = 1
	ctxBody   = 0
	ctxCType  = 1
)

func ctxRef(v Val) T { return v.(VPtr).Ref }

func (fx *FX) ctxSetInt(st *State, ref T, slot int64, v T) {
	st.H = fx.def("H", sto(st.H, ref, sto(sel(st.H, ref), num(slot), v)))
}

func (fx *FX) ctxSetStr(st *State, ref T, slot int64, v T) {
	st.Hs = fx.def("Hs", sto(st.Hs, ref, sto(sel(st.Hs, ref), num(slot), v)))
}

func (fx *FX) ctxWrite(st *State, c *CallCtx) T {
	p := c.Args[0].(VPtr)
	fx.nilCheck(st, p.Ref, c.Pos, "RequestCtx receiver")
	fx.writeCheck(st, p.Ref, rootOf(c.C.Args[0]), c.Pos, "response state of the RequestCtx")
	return p.Ref
}

func jsonTag(f *types.Var, tag string) (string, bool) {
	t := reflect.StructTag(tag).Get("json")
	if t == "-" {
		return "", false
	}
	name := strings.Split(t, ",")[0]
	if name == "" {
		name = f.Name()
	}
	return name, true
}

// jsonFacts relates the leaves of a value of type t (loaded from / stored to memory) to readings of a JSON text.
// decode=true: v == reading(text) (Unmarshal). decode=false: reading(text) == v (Marshal).
func (fx *FX) jsonFacts(st *State, text T, path string, t types.Type, v Val, guard T) {
	fx.jsonFactsOld(st, text, path, t, v, nil, guard)
}

// jsonFactsOld: with old != nil (decoding), a member that is absent from the text leaves the field as it was.
func (fx *FX) jsonFactsOld(st *State, text T, path string, t types.Type, v Val, old Val, guard T) {
	switch u := t.Underlying().(type) {
	case *types.Basic:
		key := fx.strLit(path)
		has := app(SBool, "jhas", text, key)
		switch {
		case u.Info()&types.IsString != 0:
			r := app(SSeq, "jstr", text, key)
			if old != nil {
				r = ite(has, r, old.(VStr).T)
			}
			fx.assume(guard, eq(v.(VStr).T, r))
		case u.Info()&types.IsBoolean != 0:
			r := app(SBool, "jbool", text, key)
			if old != nil {
				r = ite(has, r, old.(VBool).T)
			}
			fx.assume(guard, app(SBool, "=", v.(VBool).T, r))
		case u.Info()&types.IsInteger != 0:
			r := app(SInt, "jnum", text, key)
			if old != nil {
				r = ite(has, r, old.(VInt).T)
			}
			fx.assume(guard, eq(v.(VInt).T, r))
		}
	case *types.Struct:
		sv := v.(VStruct)
		for i := 0; i < u.NumFields(); i++ {
			f := u.Field(i)
			name, ok := jsonTag(f, u.Tag(i))
			if !ok || !f.Exported() {
				continue
			}
			p := name
			if path != "" {
				p = path + "." + name
			}
			var of Val
			if old != nil {
				of = old.(VStruct).F[i]
			}
			fx.jsonFactsOld(st, text, p, f.Type(), sv.F[i], of, guard)
		}
	case *types.Slice:
		// a []string member: a JSON array of strings, read by jarrlen(text, path) and jarrstr(text, path, k)
		if b, isB := u.Elem().Underlying().(*types.Basic); isB && b.Info()&types.IsString != 0 {
			if sv, isS := v.(VSlice); isS && old == nil {
				key := fx.strLit(path)
				fx.assume(guard, eq(app(SInt, "jarrlen", text, key), sv.Len))
				arr := fx.def("jarr", sel(st.Hs, sv.Ref))
				fx.line(fmt.Sprintf("(assert (=> %s (forall ((k!j Int)) (! (=> (and (<= 0 k!j) (< k!j %s)) (= (jarrstr %s %s k!j) (select %s (+ %s k!j)))) :pattern ((jarrstr %s %s k!j))))))",
					guard.S, sv.Len.S, text.S, key.S, arr.S, sv.Off.S, text.S, key.S))
				// the same fact triggered from the array side (no arithmetic in the pattern)
				fx.line(fmt.Sprintf("(assert (=> %s (forall ((i!j Int)) (! (=> (and (<= %s i!j) (< i!j (+ %s %s))) (= (jarrstr %s %s (- i!j %s)) (select %s i!j))) :pattern ((select %s i!j))))))",
					guard.S, sv.Off.S, sv.Off.S, sv.Len.S, text.S, key.S, sv.Off.S, arr.S, arr.S))
			}
		}
	case *types.Pointer:
		pv := v.(VPtr)
		key := fx.strLit(path)
		has := app(SBool, "jhas", text, key)
		if old != nil {
			op := old.(VPtr)
			// an absent member leaves the pointer as it was; a present one makes it non-nil
			fx.assume(and(guard, not(has)), and(eq(pv.Ref, op.Ref), eq(pv.Off, op.Off)))
			fx.assume(and(guard, has), not(eq(pv.Ref, num(0))))
		} else {
			fx.assume(guard, app(SBool, "=", not(eq(pv.Ref, num(0))), has))
		}
		if _, isStruct := u.Elem().Underlying().(*types.Struct); isStruct {
			inner, _ := unflatten(u.Elem(), fx.loadLeaves(st, pv.Ref, pv.Off, u.Elem()))
			fx.jsonFacts(st, text, path, u.Elem(), inner, and(guard, has))
		}
	}
}

func registerRESTModels(u *Unit) {
	boolFn := func(name, spec, desc string) {
		u.reg(name, desc, nil, func(fx *FX, st *State, c *CallCtx) Val {
			p := c.Args[0].(VPtr)
			fx.nilCheck(st, p.Ref, c.Pos, "RequestCtx receiver")
			return VBool{fx.def(spec, app(SBool, spec, p.Ref))}
		})
	}
	boolFn("(*github.com/valyala/fasthttp.RequestCtx).IsPost", "ispost", "returns ispost(ctx): the request method is POST")
	boolFn("(*github.com/valyala/fasthttp.RequestCtx).IsGet", "isget", "returns isget(ctx): the request method is GET")
	bytesFn := func(name, spec, desc string) {
		u.reg(name, desc, nil, func(fx *FX, st *State, c *CallCtx) Val {
			p := c.Args[0].(VPtr)
			fx.nilCheck(st, p.Ref, c.Pos, "RequestCtx receiver")
			return freshBytes(fx, st, app(SSeq, spec, p.Ref), spec)
		})
	}
	bytesFn("(*github.com/valyala/fasthttp.RequestCtx).PostBody", "reqbody", "returns the request body bytes reqbody(ctx)")
	bytesFn("(*github.com/valyala/fasthttp.RequestCtx).Path", "reqpath", "returns the request path reqpath(ctx)")
	bytesFn("(*github.com/valyala/fasthttp.RequestCtx).Method", "reqmethod", "returns the request method text")
	u.reg("(*github.com/valyala/fasthttp.RequestCtx).QueryArgs", "returns the query arguments of the request (an object identified with the ctx)", nil,
		func(fx *FX, st *State, c *CallCtx) Val {
			p := c.Args[0].(VPtr)
			fx.nilCheck(st, p.Ref, c.Pos, "RequestCtx receiver")
			rt := c.C.Signature().Results().At(0).Type().(*types.Pointer)
			r := fx.allocObj(st, "qargs", nil)
			fx.ctxSetInt(st, r, 0, p.Ref)
			return VPtr{Ref: r, Off: num(0), Elem: rt.Elem()}
		})
	u.reg("(*github.com/valyala/fasthttp.Args).Peek", "returns reqquery(ctx, key), the value of a query argument (nil/empty when absent)", nil,
		func(fx *FX, st *State, c *CallCtx) Val {
			a := c.Args[0].(VPtr)
			ctx := sel(sel(st.H, a.Ref), num(0))
			return freshBytes(fx, st, app(SSeq, "reqquery", ctx, c.Args[1].(VStr).T), "peek")
		})
	u.reg("(*github.com/valyala/fasthttp.RequestCtx).SetStatusCode", "sets the response status (ghost: status slot of the ctx)", []int{0},
		func(fx *FX, st *State, c *CallCtx) Val {
			ref := fx.ctxWrite(st, c)
			fx.ctxSetInt(st, ref, ctxStatus, c.Args[1].(VInt).T)
			return VUnit{}
		})
	u.reg("(*github.com/valyala/fasthttp.RequestCtx).SetContentType", "sets the response content type", []int{0},
		func(fx *FX, st *State, c *CallCtx) Val {
			ref := fx.ctxWrite(st, c)
			fx.ctxSetStr(st, ref, ctxCType, c.Args[1].(VStr).T)
			return VUnit{}
		})
	u.reg("(*github.com/valyala/fasthttp.RequestCtx).SetBody", "sets the response body to a copy of the bytes", []int{0},
		func(fx *FX, st *State, c *CallCtx) Val {
			ref := fx.ctxWrite(st, c)
			fx.ctxSetStr(st, ref, ctxBody, seqOfBytes(fx, st, c.Args[1].(VSlice)))
			fx.ctxSetInt(st, ref, ctxNBody, add(sel(sel(st.H, ref), num(ctxNBody)), num(1)))
			return VUnit{}
		})
	u.reg("(*github.com/valyala/fasthttp.RequestCtx).SetBodyString", "sets the response body", []int{0},
		func(fx *FX, st *State, c *CallCtx) Val {
			ref := fx.ctxWrite(st, c)
			fx.ctxSetStr(st, ref, ctxBody, c.Args[1].(VStr).T)
			fx.ctxSetInt(st, ref, ctxNBody, add(sel(sel(st.H, ref), num(ctxNBody)), num(1)))
			return VUnit{}
		})
	u.reg("(*github.com/valyala/fasthttp.RequestCtx).Redirect", "answers with a redirect: status and location set", []int{0},
		func(fx *FX, st *State, c *CallCtx) Val {
			ref := fx.ctxWrite(st, c)
			fx.ctxSetInt(st, ref, ctxStatus, c.Args[2].(VInt).T)
			fx.ctxSetStr(st, ref, ctxBody, T{"empty", SSeq})
			fx.ctxSetInt(st, ref, ctxNBody, add(sel(sel(st.H, ref), num(ctxNBody)), num(1)))
			return VUnit{}
		})
	u.reg("(*github.com/valyala/fasthttp.RequestCtx).SetUserValue", "stores a per-request value", nil,
		func(fx *FX, st *State, c *CallCtx) Val { return VUnit{} })
	u.reg("net/http.StatusText", "returns the standard text of a status code", nil,
		func(fx *FX, st *State, c *CallCtx) Val {
			return VStr{app(SSeq, "statustext", c.Args[0].(VInt).T)}
		})
	u.reg("encoding/json.Unmarshal", "err == nil iff jok(data, T) for the target type T; on success every exported field whose member is present (jhas) equals the JSON reading at its tag path and every other field keeps its previous value; on failure the target is unconstrained", []int{1},
		func(fx *FX, st *State, c *CallCtx) Val {
			data := c.Args[0].(VSlice)
			iv := c.Args[1].(VIface)
			mi, ok := c.C.Args[1].(*ssa.MakeInterface)
			if !ok {
				fx.note("json.Unmarshal into a target of unknown static type: target unconstrained")
				return fx.freshErrorVal(st)
			}
			pt, ok := mi.X.Type().Underlying().(*types.Pointer)
			if !ok {
				return fx.freshErrorVal(st)
			}
			tp := fx.val(mi.X).(VPtr)
			_ = iv
			fx.nilCheck(st, tp.Ref, c.Pos, "json.Unmarshal target")
			fx.writeCheck(st, tp.Ref, rootOf(mi.X), c.Pos, "json.Unmarshal target")
			text := fx.def("jsontext", seqOfBytes(fx, st, data))
			okv := fx.def("jok", app(SBool, "jok", text, num(fx.u.typeTag(pt.Elem()))))
			// havoc the target, then constrain it on success: present members are decoded, absent ones keep
			// the value the field had before the call
			oldv, _ := unflatten(pt.Elem(), fx.loadLeaves(st, tp.Ref, tp.Off, pt.Elem()))
			oldv = fx.defVal("unmarshal_old", pt.Elem(), oldv)
			nv := fx.havoc("unmarshalled", pt.Elem(), tTrue)
			fx.storeLeaves(st, tp.Ref, tp.Off, pt.Elem(), flatten(nv))
			if a := fx.privRoot(mi.X); a != nil {
				st.Priv[a] = [2]T{st.H, st.Hs}
			}
			fx.jsonFactsOld(st, text, "", pt.Elem(), nv, oldv, okv)
			// nested pointers point to fresh objects
			fx.unmarshalAllocs(st, pt.Elem(), nv)
			return fx.condError(st, okv, "json")
		})
	u.reg("encoding/json.Marshal", "for the response structs of this program: never fails; the result is a JSON text whose readings at the tag paths equal the fields", nil,
		func(fx *FX, st *State, c *CallCtx) Val {
			mi, ok := c.C.Args[0].(*ssa.MakeInterface)
			out := fx.fresh("marshalled", SSeq)
			if ok {
				fx.jsonFacts(st, out, "", mi.X.Type(), fx.val(mi.X), tTrue)
				fx.assume(tTrue, app(SBool, "jok", out, num(fx.u.typeTag(mi.X.Type()))))
			} else {
				fx.note("json.Marshal of a value of unknown static type: text unconstrained")
			}
			okv := fx.fresh("marshalok", SBool)
			if ok && marshalTotal(mi.X.Type()) {
				fx.assume(tTrue, okv)
			}
			r := freshBytes(fx, st, out, "json")
			return VTuple{E: []Val{r, fx.condError(st, okv, "marshal")}}
		})
	u.reg("encoding/json.NewEncoder", "returns an encoder writing to w (ghost: remembers the writer)", nil,
		func(fx *FX, st *State, c *CallCtx) Val {
			w := c.Args[0].(VIface)
			rt := c.C.Signature().Results().At(0).Type().(*types.Pointer)
			r := fx.allocObj(st, "encoder", nil)
			// the writer is a *RequestCtx boxed in an io.Writer: remember the ctx object
			wp := sel(sel(st.H, w.Box), num(0))
			fx.ctxSetInt(st, r, 0, wp)
			return VPtr{Ref: r, Off: num(0), Elem: rt.Elem()}
		})
	u.reg("(*encoding/json.Encoder).Encode", "writes the JSON text of v to the encoder's writer: for a RequestCtx writer the response body becomes that text", []int{0},
		func(fx *FX, st *State, c *CallCtx) Val {
			e := c.Args[0].(VPtr)
			ctx := fx.def("encctx", sel(sel(st.H, e.Ref), num(0)))
			out := fx.fresh("encoded", SSeq)
			if mi, ok := c.C.Args[1].(*ssa.MakeInterface); ok {
				fx.jsonFacts(st, out, "", mi.X.Type(), fx.val(mi.X), tTrue)
			}
			// the writer object is written: it must be writable in this frame
			s2 := st.clone()
			allowed := not(sel(fx.entry.Alloc, ctx))
			for _, m := range fx.modRefs {
				allowed = or(allowed, eq(ctx, m))
			}
			fx.oblige("frame:store", "encoder-writer", st.PC, allowed, c.Pos, "json.Encoder writes to its writer")
			_ = s2
			fx.ctxSetStr(st, ctx, ctxBody, out)
			fx.ctxSetInt(st, ctx, ctxNBody, add(sel(sel(st.H, ctx), num(ctxNBody)), num(1)))
			return nilError()
		})
	u.reg("github.com/swaggo/fasthttp-swagger.WrapHandler", "returns the swagger documentation handler: an external function value about which nothing is assumed", nil,
		func(fx *FX, st *State, c *CallCtx) Val {
			return VFunc{Id: num(-1), Env: num(0)}
		})
	u.reg("strings.Contains", "returns contains(s, sub) (uninterpreted)", nil,
		func(fx *FX, st *State, c *CallCtx) Val {
			fx.compareCheck(st, c.V, c.C.Args[0], c.C.Args[1])
			return VBool{app(SBool, "contains", c.Args[0].(VStr).T, c.Args[1].(VStr).T)}
		})
}

func (fx *FX) freshErrorVal(st *State) Val {
	ok := fx.fresh("ok", SBool)
	return fx.condError(st, ok, "err")
}

// marshalTotal: json.Marshal cannot fail for structs of strings, integers, booleans, and slices/structs of those.
func marshalTotal(t types.Type) bool {
	switch u := t.Underlying().(type) {
	case *types.Basic:
		return u.Info()&(types.IsString|types.IsInteger|types.IsBoolean) != 0
	case *types.Struct:
		for i := 0; i < u.NumFields(); i++ {
			if !marshalTotal(u.Field(i).Type()) {
				return false
			}
		}
		return true
	case *types.Slice:
		return marshalTotal(u.Elem())
	case *types.Pointer:
		return marshalTotal(u.Elem())
	}
	return false
}

// unmarshalAllocs: pointer-typed members decoded by json.Unmarshal point to objects that did not exist before.
func (fx *FX) unmarshalAllocs(st *State, t types.Type, v Val) {
	stt, ok := t.Underlying().(*types.Struct)
	if !ok {
		return
	}
	sv := v.(VStruct)
	for i := 0; i < stt.NumFields(); i++ {
		if _, isPtr := stt.Field(i).Type().Underlying().(*types.Pointer); isPtr {
			p := sv.F[i].(VPtr)
			fx.assume(tTrue, or(eq(p.Ref, num(0)), and(not(sel(st.Alloc, p.Ref)), ge(p.Ref, num(refBase+500000)), eq(p.Off, num(0)))))
			st.Alloc = fx.def("alloc", ite(eq(p.Ref, num(0)), st.Alloc, sto(st.Alloc, p.Ref, tTrue)))
		}
	}
}
