package main

// Symbolic execution of one SSA function into a verification-condition script.

import (
	"fmt"
	"go/constant"
	"go/token"
	"go/types"
	"math/big"
	"sort"
	"strings"

	"golang.org/x/tools/go/ssa"
)

type State struct {
	PC       T
	H        T // int heap
	Hs       T // string heap
	Alloc    T // allocated refs
	Pooled   T // refs obtained from a sync.Pool in this call
	Released T // refs given back with Put
	Frozen   T // refs viewed by an unsafe string
	Now      T // ghost: Unix seconds returned by the most recent time.Now() on this path (arbitrary before the first)
	NowN     T // ghost: number of time.Now() calls on this path
	// Priv: for a private local (an allocation whose address never escapes), the heap version
	// right after the last store to it; loads read that version, whatever was written elsewhere since
	Priv map[*ssa.Alloc][2]T
	// PrivVals: the leaves last stored into a private local, by slot (store-to-load forwarding: a load of slots that
	// were all stored at literal offsets returns the stored terms themselves instead of a select over the store chain)
	PrivVals map[*ssa.Alloc]map[int64]T
}

func (s *State) clone() *State {
	c := *s
	c.Priv = make(map[*ssa.Alloc][2]T, len(s.Priv))
	for k, v := range s.Priv {
		c.Priv[k] = v
	}
	c.PrivVals = make(map[*ssa.Alloc]map[int64]T, len(s.PrivVals))
	for k, m := range s.PrivVals {
		m2 := make(map[int64]T, len(m))
		for o, t := range m {
			m2[o] = t
		}
		c.PrivVals[k] = m2
	}
	return &c
}

// privateAlloc: the address of the allocation is used only to reach its fields/elements for direct loads and stores.
func (fx *FX) privateAlloc(a *ssa.Alloc) bool {
	if v, ok := fx.privCache[a]; ok {
		return v
	}
	ok := true
	var walk func(v ssa.Value)
	walk = func(v ssa.Value) {
		refs := v.Referrers()
		if refs == nil {
			ok = false
			return
		}
		for _, r := range *refs {
			switch x := r.(type) {
			case *ssa.FieldAddr:
				walk(x)
			case *ssa.IndexAddr:
				if x.X != v {
					ok = false
				}
				walk(x)
			case *ssa.UnOp:
				if x.Op != token.MUL {
					ok = false
				}
			case *ssa.Store:
				if x.Val == v {
					ok = false
				}
			case *ssa.DebugRef:
			default:
				ok = false
			}
		}
	}
	walk(a)
	fx.privCache[a] = ok
	return ok
}

// privRoot returns the private allocation an address is derived from, if any.
func (fx *FX) privRoot(addr ssa.Value) *ssa.Alloc {
	for i := 0; i < 32; i++ {
		switch x := addr.(type) {
		case *ssa.FieldAddr:
			addr = x.X
		case *ssa.IndexAddr:
			addr = x.X
		case *ssa.Alloc:
			if fx.privateAlloc(x) {
				return x
			}
			return nil
		default:
			return nil
		}
	}
	return nil
}

type Obligation struct {
	Name     string
	Kind     string
	Func     string
	Unit     string
	Prefix   int
	Guard    T
	Goal     T
	Extra    T // split-case assumption
	Pos      string
	Src      string
	GetVals  []string
	UsesSeq  bool
	fx       *FX
	Result   SolverResult
	Expected string // "" normal; "sat" for vacuity covers
	Trivial  bool
	Block    *ssa.BasicBlock
}

type loopInfo struct {
	countHdr T // map-range loops: ghost number of keys visited before this iteration (havocked at the header)
	seenHdr T // map-range loops over string keys: ghost set of keys visited before this iteration (havocked at the header)
	header  *ssa.BasicBlock
	ordinal int
	body    map[*ssa.BasicBlock]bool
	lc      *LoopContract
	hdrEnv  map[string]Val // names valid at header (phis)
	splits  []splitCase
	variant T
	st      *State
}

type splitCase struct {
	term   T
	lo, hi int64
	name   string
	kind   string
}

type deferred struct {
	call *ssa.CallCommon
	pos  token.Pos
	args []Val
	recv Val
}

type FX struct {
	u      *Unit
	fn     *ssa.Function
	fc     *FuncContract
	name   string
	lines  []string
	n      int
	vals   map[ssa.Value]Val
	out    map[*ssa.BasicBlock]*State
	obls   []*Obligation
	entry  *State
	kindN  map[string]int
	names  map[string]ssa.Value // source names from DebugRef
	loops  map[*ssa.BasicBlock]*loopInfo
	inLoop map[*ssa.BasicBlock]*loopInfo
	params map[string]Val
	lets   map[string]Val
	fnSplits []splitCase
	defers map[*ssa.BasicBlock][]deferred
	curDefers []deferred
	abstractions []string
	strLits map[string]T
	bnd    map[string][2]*big.Int
	tz     map[string]uint
	knownFresh map[string]bool
	nonNil map[string]bool
	curBlock *ssa.BasicBlock
	modRefs []T // refs this function may modify (from its modifies clause)
	retCovers []T
	recoverTags []T // type tags of the values returned by recover() in this function (ghost panicking: some tag != 0)
	anteCovers map[string][]T // per ensures label: (path ∧ antecedent) at each return
	anteOrder  []string
	labels *labelState
	presetLabels []label // labels of the arguments at a call site, for the scan of a contract-less callee
	dynAssume T
	stampN   int64
	privCache map[*ssa.Alloc]bool
	privByRef map[string]*ssa.Alloc
	phiN      map[string]int
	bound     map[ssa.Value]bool
	inCall    int
	entryRefs map[string]bool
	rngPos    T
	rngPos0   T
	rngReads  int
	domain    T            // unlabelled domain clauses
	domainFor map[string]T // domain clauses that apply to the ensures clause of that label only
	domainAll T            // all of them (invariants, asserts)
	safeClause bool
	failN     int
	inlineDepth int
	inlineStack []*ssa.Function
	inlineRets  []inlineRet
	inlinedIn   *FX
	lineBase    int
	callerLoop  *loopInfo
	chainCache map[string]chainRes
	jsSets    [][2]T
	warnings  []string
	cuts      []cutPoint
	assertsSeen map[string]bool
	lineMeta []lineInfo
	inputs   []inputTerm
	usedModels map[string]bool
	mapOrigin  map[string]*cmap
	pureDecl   map[string]bool
}

type lineInfo struct {
	postAssume bool
	droppable  bool // hypothesis contributed by a call (callee ensures, model facts): forgotten after a cut
	block      *ssa.BasicBlock
}

type cutPoint struct {
	idx   int
	block *ssa.BasicBlock
}

func (fx *FX) line(s string) {
	fx.lines = append(fx.lines, s)
	fx.lineMeta = append(fx.lineMeta, lineInfo{block: fx.curBlock, droppable: fx.inCall > 0 && strings.HasPrefix(s, "(assert")})
}

func (fx *FX) sym(hint string) string {
	fx.n++
	h := strings.Map(func(r rune) rune {
		if r >= 'a' && r <= 'z' || r >= 'A' && r <= 'Z' || r >= '0' && r <= '9' || r == '_' {
			return r
		}
		return '_'
	}, hint)
	return fmt.Sprintf("%s!%d", h, fx.n)
}

func (fx *FX) fresh(hint string, s Sort) T {
	name := fx.sym(hint)
	fx.line(fmt.Sprintf("(declare-const %s %s)", name, s))
	return T{name, s}
}

func atomic(t T) bool { return !strings.HasPrefix(t.S, "(") || strings.HasPrefix(t.S, "(- ") && strings.Count(t.S, "(") == 1 }

func (fx *FX) def(hint string, t T) T {
	if atomic(t) {
		return t
	}
	name := fx.sym(hint)
	fx.line(fmt.Sprintf("(define-fun %s () %s %s)", name, t.Sort, t.S))
	nt := T{name, t.Sort}
	if b, ok := fx.bnd[t.S]; ok {
		fx.bnd[name] = b
	}
	if z, ok := fx.tz[t.S]; ok {
		fx.tz[name] = z
	}
	return nt
}

func (fx *FX) assume(guard, fact T) {
	f := implies(guard, fact)
	if f.S == "true" {
		return
	}
	fx.line("(assert " + f.S + ")")
}

func (fx *FX) note(format string, a ...any) {
	s := fmt.Sprintf(format, a...)
	for _, x := range fx.abstractions {
		if x == s {
			return
		}
	}
	fx.abstractions = append(fx.abstractions, s)
}

func (fx *FX) pos(p token.Pos) string {
	if !p.IsValid() {
		return ""
	}
	ps := fx.u.Prog.Fset.Position(p)
	f := ps.Filename
	if i := strings.LastIndex(f, "/"); i >= 0 {
		f = f[i+1:]
	}
	return fmt.Sprintf("%s:%d", f, ps.Line)
}

// oblige records a proof obligation at the current script position.
func functionalKind(kind string) bool {
	switch kind {
	case "post", "assert", "inv-entry", "inv-pres", "lemma":
		return true
	}
	return false
}

func (fx *FX) oblige(kind, label string, guard, goal T, pos token.Pos, src string) {
	if functionalKind(kind) && fx.domainAll.S != "" && !fx.safeClause {
		if kind == "post" {
			guard = and(guard, fx.domain)
			if d, ok := fx.domainFor[label]; ok {
				guard = and(guard, d)
			}
		} else {
			guard = and(guard, fx.domainAll)
		}
	}
	if guard.S == "false" {
		return
	}
	if goal.S == "true" {
		// a property-carrying clause that evaluates to true outright (e.g. `r == cfg.Raw` when the returned term is
		// that very term) is still recorded, discharged by evaluation, so that the obligation lock can see it
		switch kind {
		case "post", "assert", "inv-entry", "inv-pres", "variant", "bound", "lemma":
		default:
			return
		}
	}
	key := kind
	if label != "" {
		key += ":" + label
	}
	fx.kindN[key]++
	name := fmt.Sprintf("%s.%s/%s", fx.u.Name, fx.name, key)
	if fx.kindN[key] > 1 || !strings.HasPrefix(kind, "post") && !strings.HasPrefix(kind, "lemma") {
		name += fmt.Sprintf("#%d", fx.kindN[key])
	}
	if goal.S == "true" {
		fx.obls = append(fx.obls, &Obligation{Name: name, Kind: kind, Func: fx.name, Unit: fx.u.Name, Prefix: len(fx.lines), Guard: guard, Goal: goal, Extra: tTrue,
			Pos: fx.pos(pos), Src: src, fx: fx, Block: fx.curBlock, Trivial: true})
		return
	}
	li := fx.inLoop[fx.curBlock]
	cases := []struct {
		tag string
		as  T
	}{{"", tTrue}}
	addSplit := func(sp splitCase) {
		var nc []struct {
			tag string
			as  T
		}
		for _, c := range cases {
			for v := sp.lo; v <= sp.hi; v++ {
				tag := fmt.Sprintf("%s=%d", sp.name, v)
				if c.tag != "" {
					tag = c.tag + "," + tag
				}
				nc = append(nc, struct {
					tag string
					as  T
				}{tag, and(c.as, eq(sp.term, num(v)))})
			}
		}
		cases = nc
	}
	if kind != "split-exhaustive" {
		for _, sp := range fx.fnSplits {
			if sp.kind == "" || sp.kind == kind {
				addSplit(sp)
			}
		}
		if li != nil {
			for _, sp := range li.splits {
				addSplit(sp)
			}
		}
	}
	for _, c := range cases {
		n := name
		if c.tag != "" {
			n += "@" + c.tag
		}
		o := &Obligation{Name: n, Kind: kind, Func: fx.name, Unit: fx.u.Name, Prefix: len(fx.lines), Guard: guard, Goal: goal, Extra: c.as,
			Pos: fx.pos(pos), Src: src, fx: fx, Block: fx.curBlock}
		fx.obls = append(fx.obls, o)
	}
	// assert-then-assume (never for the always-false marker obligations: assuming them would make
	// everything downstream vacuously true)
	n0 := len(fx.lines)
	if goal.S != "false" {
		fx.assume(guard, goal)
	}
	for i := n0; i < len(fx.lines); i++ {
		fx.lineMeta[i].postAssume = true
		fx.lineMeta[i].droppable = false
	}
}

// ---------------------------------------------------------------------------
// bounds tracking (static intervals used to omit wrap-around terms)

func (fx *FX) bounds(t T) (lo, hi *big.Int) {
	if v, ok := isLit(t); ok {
		b := big.NewInt(v)
		return b, b
	}
	if strings.HasPrefix(t.S, "(- ") || (len(t.S) > 0 && t.S[0] >= '0' && t.S[0] <= '9') {
		s := t.S
		neg := false
		if strings.HasPrefix(s, "(- ") {
			s = s[3 : len(s)-1]
			neg = true
		}
		if b, ok := new(big.Int).SetString(s, 10); ok {
			if neg {
				b.Neg(b)
			}
			return b, b
		}
	}
	if b, ok := fx.bnd[t.S]; ok {
		return b[0], b[1]
	}
	return nil, nil
}

func (fx *FX) setBounds(t T, lo, hi *big.Int) {
	if lo != nil && hi != nil {
		fx.bnd[t.S] = [2]*big.Int{lo, hi}
	}
}

func typeBounds(t types.Type) (lo, hi *big.Int) {
	if b, ok := t.Underlying().(*types.Basic); ok && b.Info()&types.IsInteger != 0 {
		return intRange(b)
	}
	return nil, nil
}

// wrapTo reduces the mathematical value t (with static interval) to the range of typ.
func (fx *FX) wrapTo(t T, lo, hi *big.Int, typ types.Type) T {
	tlo, thi := typeBounds(typ)
	if tlo == nil {
		return t
	}
	if lo != nil && hi != nil && lo.Cmp(tlo) >= 0 && hi.Cmp(thi) <= 0 {
		fx.setBounds(t, lo, hi)
		return t
	}
	bits := intBits(typ)
	m := new(big.Int).Lsh(bigOne, bits)
	var r T
	single := lo != nil && hi != nil && new(big.Int).Sub(tlo, m).Cmp(lo) <= 0 && new(big.Int).Add(thi, m).Cmp(hi) >= 0
	if single {
		r = ite(gt(t, bigNum(thi)), sub(t, bigNum(m)), ite(lt(t, bigNum(tlo)), add(t, bigNum(m)), t))
	} else if isUnsigned(typ) {
		r = emod(t, bigNum(m))
	} else {
		half := new(big.Int).Lsh(bigOne, bits-1)
		r = sub(emod(add(t, bigNum(half)), bigNum(m)), bigNum(half))
	}
	fx.setBounds(r, tlo, thi)
	return r
}

// ---------------------------------------------------------------------------
// memory

var maxInt63 = new(big.Int).Sub(new(big.Int).Lsh(bigOne, 63), bigOne)

const zeroIArr = "((as const (Array Int Int)) 0)"
const zeroSArr = "zeroSArr"

// Object identities are abstract (Go code can only compare them), so any injective numbering is
// as good as any other: objects that exist at entry are numbered below refBase, and the n-th
// allocation performed by the verified function gets the literal refBase+n. Distinctness of
// fresh objects from each other and from entry objects is then decided by the rewriter.
const refBase = 1000000

func (fx *FX) newRef() T {
	fx.stampN++
	r := num(refBase + fx.stampN)
	fx.knownFresh[r.S] = true
	fx.nonNil[r.S] = true
	return r
}

// newStamp: allocation time stamps make distinctness of objects an arithmetic fact:
// objects that exist at entry have stamp <= 0, the n-th allocation of this call has stamp n.
func (fx *FX) newStamp(r T) T {
	fx.stampN++
	return eq(app(SInt, "stamp", r), num(fx.stampN))
}

func hasStrLeaf(t types.Type) bool {
	if t == nil {
		return false
	}
	for _, l := range layout(t) {
		if l.kind == lkStr {
			return true
		}
	}
	return false
}

// allocObj allocates a fresh object; zt != nil zeroes it as a value of that type.
func (fx *FX) allocObj(st *State, hint string, zt types.Type) T {
	r := fx.newRef()
	fx.assume(tTrue, not(sel(st.Alloc, r)))
	st.Alloc = fx.def("alloc", sto(st.Alloc, r, tTrue))
	if zt != nil {
		st.H = fx.def("H", sto(st.H, r, T{zeroIArr, SIArr}))
		if hasStrLeaf(zt) {
			st.Hs = fx.def("Hs", sto(st.Hs, r, T{zeroSArr, SSArr}))
		}
	}
	fx.knownFresh[r.S] = true
	fx.nonNil[r.S] = true
	return r
}

// rH / rHs: the heap version from which object ref is read. Objects that exist at entry are
// never written by the verified function (every store carries a frame:store / own:global-write
// obligation, which is assumed once asserted) unless named in its modifies clause, so they are
// read from the entry heap; this keeps spec terms about inputs identical at every program point.
func (fx *FX) immutableEntry(ref T) bool {
	if fx.fn.Name() == "init" {
		return false
	}
	if fx.entryRefs[ref.S] {
		return true
	}
	if id, ok := isLit(ref); ok && id > 0 && id < refBase {
		return len(fx.modRefs) == 0 || true
	}
	return false
}

func (fx *FX) rH(st *State, ref T) T {
	if fx.immutableEntry(ref) {
		return fx.entry.H
	}
	return st.H
}

func (fx *FX) rHs(st *State, ref T) T {
	if fx.immutableEntry(ref) {
		return fx.entry.Hs
	}
	return st.Hs
}

func (fx *FX) loadLeaves(st *State, ref, off T, t types.Type) []T {
	ls := layout(t)
	out := make([]T, len(ls))
	hI, hS := fx.rH(st, ref), fx.rHs(st, ref)
	for i, l := range ls {
		idx := add(off, num(int64(i)))
		switch l.kind {
		case lkStr:
			out[i] = sel(sel(hS, ref), idx)
		case lkBool:
			out[i] = intToBool(sel(sel(hI, ref), idx))
		default:
			out[i] = sel(sel(hI, ref), idx)
		}
	}
	return out
}

func (fx *FX) load(st *State, p VPtr, t types.Type, hint string) Val {
	ts := fx.loadLeaves(st, p.Ref, p.Off, t)
	for i := range ts {
		ts[i] = fx.def(hint, ts[i])
	}
	fx.assume(st.PC, leafFacts(t, ts))
	ls := layout(t)
	for i, l := range ls {
		if l.kind == lkInt && l.lo != nil {
			fx.setBounds(ts[i], l.lo, l.hi)
		}
		if l.kind == lkLen || l.kind == lkOff {
			fx.setBounds(ts[i], bigZero, maxInt63)
		}
		if l.kind == lkRef {
			fx.assume(st.PC, or(eq(ts[i], num(0)), sel(st.Alloc, ts[i])))
		}
	}
	v, _ := unflatten(t, ts)
	return v
}

func (fx *FX) storeLeaves(st *State, ref, off T, t types.Type, ts []T) {
	ls := layout(t)
	var ia, sa T
	haveI, haveS := false, false
	for i, l := range ls {
		idx := add(off, num(int64(i)))
		switch l.kind {
		case lkStr:
			if !haveS {
				sa, haveS = sel(st.Hs, ref), true
			}
			sa = sto(sa, idx, ts[i])
		case lkBool:
			if !haveI {
				ia, haveI = sel(st.H, ref), true
			}
			ia = sto(ia, idx, boolToInt(ts[i]))
		default:
			if !haveI {
				ia, haveI = sel(st.H, ref), true
			}
			ia = sto(ia, idx, ts[i])
		}
	}
	if haveI {
		st.H = fx.def("H", sto(st.H, ref, ia))
	}
	if haveS {
		st.Hs = fx.def("Hs", sto(st.Hs, ref, sa))
			}
}

// writeCheck emits the frame / ownership obligations for a write to object ref.
func (fx *FX) writeCheck(st *State, ref T, root ssa.Value, pos token.Pos, what string) {
	if fx.knownFresh[ref.S] {
		return
	}
	if fx.fn.Name() == "init" || strings.HasPrefix(fx.fn.Name(), "init#") {
		return
	}
	kind := "frame:store"
	if _, ok := root.(*ssa.Global); ok {
		kind = "own:global-write"
	}
	allowed := not(sel(fx.entry.Alloc, ref))
	for _, m := range fx.modRefs {
		allowed = or(allowed, eq(ref, m))
	}
	fx.oblige(kind, "", st.PC, allowed, pos, what)
	fx.oblige("own:use-after-put", "", st.PC, not(sel(st.Released, ref)), pos, what)
	fx.oblige("own:frozen-write", "", st.PC, not(sel(st.Frozen, ref)), pos, what)
}

func (fx *FX) readCheck(st *State, ref T, pos token.Pos, what string) {
	if fx.knownFresh[ref.S] {
		// a fresh object can still have been pooled? no: pooled refs are not knownFresh
		return
	}
	if st.Released.S == fx.entry.Released.S {
		return
	}
	fx.oblige("own:use-after-put", "", st.PC, not(sel(st.Released, ref)), pos, what)
}

func (fx *FX) nilCheck(st *State, ref T, pos token.Pos, what string) {
	if fx.nonNil[ref.S] {
		return
	}
	fx.oblige("nopanic:nil", "", st.PC, not(eq(ref, num(0))), pos, what)
	fx.nonNil[ref.S] = true
}

// rootOf follows address computations back to the base value.
func rootOf(v ssa.Value) ssa.Value {
	for i := 0; i < 64; i++ {
		switch x := v.(type) {
		case *ssa.IndexAddr:
			v = x.X
		case *ssa.FieldAddr:
			v = x.X
		case *ssa.Slice:
			v = x.X
		case *ssa.ChangeType:
			v = x.X
		case *ssa.Convert:
			v = x.X
		default:
			return v
		}
	}
	return v
}

// ---------------------------------------------------------------------------
// values

func (fx *FX) havoc(hint string, t types.Type, guard T) Val {
	ls := layout(t)
	ts := make([]T, len(ls))
	for i, l := range ls {
		ts[i] = fx.fresh(hint, leafSort(l))
		if l.kind == lkInt && l.lo != nil {
			fx.setBounds(ts[i], l.lo, l.hi)
		}
		if l.kind == lkStr {
					}
	}
	fx.assume(tTrue, leafFacts(t, ts))
	v, _ := unflatten(t, ts)
	return v
}

func (fx *FX) strLit(s string) T {
	if s == "" {
		return T{"empty", SSeq}
	}
	if fx.strLits == nil {
		fx.strLits = map[string]T{}
	}
	t := fx.u.strLit(s)
	fx.strLits[s] = t
	return t
}

func (fx *FX) constVal(c *ssa.Const) Val {
	t := c.Type()
	if c.Value == nil { // zero value / nil
		return zeroVal(t)
	}
	switch u := t.Underlying().(type) {
	case *types.Basic:
		switch {
		case u.Info()&types.IsBoolean != 0:
			if constant.BoolVal(c.Value) {
				return VBool{tTrue}
			}
			return VBool{tFalse}
		case u.Info()&types.IsString != 0:
			return VStr{fx.strLit(constant.StringVal(c.Value))}
		case u.Info()&types.IsInteger != 0:
			bi, ok := new(big.Int).SetString(c.Value.ExactString(), 10)
			if !ok {
				panic("bad const " + c.Value.ExactString())
			}
			return VInt{bigNum(bi)}
		default:
			fx.note("non-integer constant %s abstracted", c.Value.String())
			return fx.havoc("fconst", t, tTrue)
		}
	}
	return zeroVal(t)
}

func (fx *FX) val(v ssa.Value) Val {
	switch x := v.(type) {
	case *ssa.Const:
		return fx.constVal(x)
	case *ssa.Global:
		ref := fx.u.globalRef(x)
		fx.nonNil[ref.S] = true
		return VPtr{Ref: ref, Off: num(0), Elem: x.Type().(*types.Pointer).Elem()}
	case *ssa.Function:
		return VFunc{Id: num(fx.u.fnID(x)), Env: num(0)}
	case *ssa.Builtin:
		return VUnit{}
	}
	if r, ok := fx.vals[v]; ok {
		return r
	}
	// value from a block not executed (unreachable) or unsupported: havoc
	fx.note("value %s used before definition (unreachable code?)", v.Name())
	r := fx.havoc("undef_"+v.Name(), v.Type(), tTrue)
	fx.vals[v] = r
	return r
}

func (fx *FX) intT(v ssa.Value) T  { return fx.val(v).(VInt).T }
func (fx *FX) boolT(v ssa.Value) T { return fx.val(v).(VBool).T }

// defVal names every leaf of a value (keeps terms small).
func (fx *FX) defVal(hint string, t types.Type, v Val) Val {
	ts := flatten(v)
	for i := range ts {
		ts[i] = fx.def(hint, ts[i])
	}
	r, _ := unflatten(t, ts)
	return r
}

// ---------------------------------------------------------------------------
// driver

func (fx *FX) initMaps() {
	fx.kindN = map[string]int{}
	fx.bnd = map[string][2]*big.Int{}
	fx.tz = map[string]uint{}
	fx.knownFresh = map[string]bool{}
	fx.nonNil = map[string]bool{}
	fx.params = map[string]Val{}
	fx.lets = map[string]Val{}
	fx.privByRef = map[string]*ssa.Alloc{}
	fx.entryRefs = map[string]bool{}
	fx.strLits = map[string]T{}
}

func (fx *FX) run() {
	fn := fx.fn
	fx.vals = map[ssa.Value]Val{}
	fx.out = map[*ssa.BasicBlock]*State{}
	fx.kindN = map[string]int{}
	fx.names = map[string]ssa.Value{}
	fx.loops = map[*ssa.BasicBlock]*loopInfo{}
	fx.inLoop = map[*ssa.BasicBlock]*loopInfo{}
	fx.params = map[string]Val{}
	fx.lets = map[string]Val{}
	fx.defers = map[*ssa.BasicBlock][]deferred{}
	fx.bnd = map[string][2]*big.Int{}
	fx.tz = map[string]uint{}
	fx.knownFresh = map[string]bool{}
	fx.nonNil = map[string]bool{}
	fx.dynAssume = tTrue
	fx.privCache = map[*ssa.Alloc]bool{}
	fx.privByRef = map[string]*ssa.Alloc{}
	fx.phiN = map[string]int{}
	fx.bound = map[ssa.Value]bool{}
	fx.entryRefs = map[string]bool{}
	fx.assertsSeen = map[string]bool{}

	// entry state
	st := &State{PC: tTrue, Priv: map[*ssa.Alloc][2]T{}, PrivVals: map[*ssa.Alloc]map[int64]T{}}
	st.H = fx.fresh("H0", SHeap)
	st.Hs = fx.fresh("Hs0", SSHeap)
	st.Alloc = fx.fresh("alloc0", SSet)
	st.Pooled = T{"((as const (Array Int Bool)) false)", SSet}
	st.Released = st.Pooled
	st.Frozen = st.Pooled
	st.Now = fx.fresh("nonow", SInt)
	st.NowN = num(0)
	fx.entry = st.clone()
	fx.assume(tTrue, not(sel(st.Alloc, num(0))))
	fx.rngPos0 = fx.fresh("rngpos0", SInt)
	fx.assume(tTrue, ge(fx.rngPos0, num(0)))
	fx.rngPos = fx.rngPos0

	// parameters and free variables
	for i, p := range fn.Params {
		v := fx.havoc("p_"+p.Name(), p.Type(), tTrue)
		fx.vals[p] = v
		name := p.Name()
		if fx.fc != nil && i < len(fx.fc.Params) {
			name = fx.fc.Params[i]
		}
		fx.params[name] = v
		fx.markEntryAllocated(st, p.Type(), v)
		fx.addInputTerms(p.Name(), p.Type(), v, st)
	}
	for _, fv := range fn.FreeVars {
		v := fx.havoc("fv_"+fv.Name(), fv.Type(), tTrue)
		fx.vals[fv] = v
		fx.markEntryAllocated(st, fv.Type(), v)
		// in contracts a free variable name denotes the captured variable's value at entry
		if pt, ok := fv.Type().(*types.Pointer); ok {
			p := v.(VPtr)
			fx.nonNil[p.Ref.S] = true
			fx.assume(tTrue, not(eq(p.Ref, num(0))))
			cell := fx.load(st, p, pt.Elem(), "cell_"+fv.Name())
			fx.params[fv.Name()] = cell
			fx.markEntryAllocated(st, pt.Elem(), cell)
		}
	}
	fx.u.assumeGlobals(fx, st)

	// contract: lets, requires, modifies, splits
	env := fx.entryEnv(st)
	if fx.fc != nil {
		for name, tys := range fx.fc.DynTypes {
			iv, ok := fx.params[name].(VIface)
			if !ok {
				fx.fail("dyntypes: %s is not an interface parameter", name)
				continue
			}
			var alts []T
			for _, tn := range tys {
				tag, ok := fx.u.tagByName(tn)
				if !ok {
					fx.fail("dyntypes: unknown type %s", tn)
					continue
				}
				alts = append(alts, eq(iv.Tag, num(tag)))
			}
			fx.assume(tTrue, or(alts...))
		}
		for _, l := range fx.fc.Lets {
			v := fx.evalExpr(env, l.E)
			if tv, ok := v.(VInt); ok {
				v = VInt{fx.def("let_"+l.Name, tv.T)}
			} else if bv, ok := v.(VBool); ok {
				v = VBool{fx.def("let_"+l.Name, bv.T)}
			} else if sv, ok := v.(VSeq); ok {
				v = VSeq{fx.def("let_"+l.Name, sv.T)}
			}
			fx.lets[l.Name] = v
		}
		var reqs []T
		for _, r := range fx.fc.Requires {
			t := fx.hypBool(env, r.E)
			reqs = append(reqs, t)
			fx.assume(tTrue, t)
		}
		fx.domain = tTrue
		fx.domainFor = map[string]T{}
		for _, dcl := range fx.fc.Domain {
			t := fx.hypBool(env, dcl.E)
			if dcl.Label == "" {
				fx.domain = and(fx.domain, t)
			} else {
				old, ok := fx.domainFor[dcl.Label]
				if !ok {
					old = tTrue
				}
				fx.domainFor[dcl.Label] = and(old, t)
			}
		}
		fx.domain = fx.def("domain", fx.domain)
		fx.domainAll = fx.domain
		for _, t := range fx.domainFor {
			fx.domainAll = and(fx.domainAll, t)
		}
		fx.domainAll = fx.def("domainall", fx.domainAll)
		for _, m := range fx.fc.Modifies {
			v := fx.evalExpr(env, m)
			switch x := v.(type) {
			case VPtr:
				fx.modRefs = append(fx.modRefs, x.Ref)
			case VSlice:
				fx.modRefs = append(fx.modRefs, x.Ref)
			default:
				fx.fail("modifies: not a pointer or slice")
			}
		}
		for _, m := range fx.modRefs {
			delete(fx.entryRefs, m.S)
		}
		for _, sp := range fx.fc.Splits {
			t := fx.evalInt(env, sp.E)
			t = fx.def("split", t)
			sc := splitCase{term: t, lo: sp.Lo, hi: sp.Hi, name: exprName(sp.E), kind: sp.Kind}
			fx.curBlock = nil
			fx.oblige("split-exhaustive", sc.name, tTrue, and(le(num(sp.Lo), t), le(t, num(sp.Hi))), token.NoPos, sp.Src)
			fx.fnSplits = append(fx.fnSplits, sc)
		}
		_ = reqs
	}

	if len(fn.Blocks) == 0 {
		return
	}
	fx.findLoops()
	order := fx.blockOrder()
	for _, b := range order {
		fx.execBlock(b, st)
	}
	if fx.fc != nil {
		for _, a := range fx.fc.Asserts {
			if !fx.assertsSeen[a.C.Label] {
				fx.fail("contract-mismatch: assert %s names a merge point that does not exist", a.C.Label)
			}
		}
	}
}

type inputTerm struct{ Label, Term string }

// addInputTerms records the terms whose model values describe the function's inputs.
func (fx *FX) addInputTerms(name string, t types.Type, v Val, st *State) {
	add := func(label string, tm T) { fx.inputs = append(fx.inputs, inputTerm{label, tm.S}) }
	switch x := v.(type) {
	case VInt:
		add(name, x.T)
	case VBool:
		add(name, x.T)
	case VStr:
		add(name+".len", app(SInt, "len", x.T))
		for k := int64(0); k < 24; k++ {
			add(fmt.Sprintf("%s[%d]", name, k), app(SInt, "at", x.T, num(k)))
		}
	case VSlice:
		add(name+".ref", x.Ref)
		add(name+".len", x.Len)
		add(name+".cap", x.Cap)
		if sizeOf(x.Elem) == 1 && !hasStrLeaf(x.Elem) {
			for k := int64(0); k < 24; k++ {
				add(fmt.Sprintf("%s[%d]", name, k), sel(sel(st.H, x.Ref), add2(x.Off, num(k))))
			}
		}
	case VPtr:
		add(name+".ref", x.Ref)
		if n := sizeOf(x.Elem); n <= 16 && !hasStrLeaf(x.Elem) {
			if stt, ok := x.Elem.Underlying().(*types.Struct); ok {
				for i := 0; i < stt.NumFields(); i++ {
					if sizeOf(stt.Field(i).Type()) == 1 {
						add(name+"->"+stt.Field(i).Name(), sel(sel(st.H, x.Ref), add2(x.Off, num(fieldOffset(stt, i)))))
					}
				}
			}
		}
	case VStruct:
		if stt, ok := t.Underlying().(*types.Struct); ok {
			for i, f := range x.F {
				fx.addInputTerms(name+"."+stt.Field(i).Name(), stt.Field(i).Type(), f, st)
			}
		}
	case VIface:
		add(name+".tag", x.Tag)
	}
}

func add2(a, b T) T { return add(a, b) }

// bindName: value v is the next distinct SSA value bound to source variable name; cut
// assertions "assert <name> <n> : e" are checked (and then assumed) at the n-th binding.
func (fx *FX) bindName(st *State, name string, v ssa.Value) {
	if fx.fc == nil || name == "" || len(fx.fc.Asserts) == 0 {
		return
	}
	if fx.bound[v] {
		return
	}
	fx.bound[v] = true
	fx.phiN[name]++
	for _, a := range fx.fc.Asserts {
		if a.Local == name && a.N == fx.phiN[name] {
			env := fx.entryEnv(st)
			env.local = map[string]Val{name: fx.vals[v]}
			env.inLoop = true
			fx.assertsSeen[a.C.Label] = true
			var pos token.Pos
			if in, ok := v.(ssa.Instruction); ok {
				pos = in.Pos()
			}
			fx.oblige("assert", a.C.Label, st.PC, fx.goalBool(env, a.C.E), pos, a.C.Src)
			if a.Cut {
				fx.cuts = append(fx.cuts, cutPoint{idx: len(fx.lines), block: fx.curBlock})
			}
		}
	}
}

// fail: a contract clause that cannot be evaluated against the current code (unknown name, loop
// that no longer exists, ...). It is not an engine error: the clause is dropped where it is a
// hypothesis and counts as false where it is a goal, so the function must be provable without it.
func (fx *FX) fail(format string, a ...any) {
	msg := fmt.Sprintf(format, a...)
	fx.failN++
	for _, w := range fx.warnings {
		if w == msg {
			return
		}
	}
	fx.warnings = append(fx.warnings, msg)
}

// goalBool / hypBool evaluate a clause as proof goal / as hypothesis.
func (fx *FX) goalBool(env *Env, e Expr) T {
	n := fx.failN
	t := fx.evalBool(env, e)
	if fx.failN != n {
		return tFalse
	}
	return t
}

func (fx *FX) hypBool(env *Env, e Expr) T {
	n := fx.failN
	t := fx.evalBool(env, e)
	if fx.failN != n {
		return tTrue
	}
	return t
}

// markEntryAllocated: every object directly referenced by a parameter exists at entry.
func (fx *FX) markEntryAllocated(st *State, t types.Type, v Val) {
	ls := layout(t)
	ts := flatten(v)
	for i, l := range ls {
		if l.kind == lkRef {
			fx.assume(tTrue, or(eq(ts[i], num(0)), and(sel(st.Alloc, ts[i]), lt(ts[i], num(refBase)))))
			fx.entryRefs[ts[i].S] = true
		}
	}
}

func exprName(e Expr) string {
	switch x := e.(type) {
	case EIdent:
		return x.Name
	case ESel:
		return exprName(x.X) + "." + x.Name
	case ECall:
		return x.Fn
	}
	return "e"
}

func (fx *FX) isBackEdge(from, to *ssa.BasicBlock) bool { return to.Dominates(from) }

func (fx *FX) findLoops() {
	fn := fx.fn
	reach := fx.reachable()
	var headers []*ssa.BasicBlock
	for _, b := range fn.Blocks {
		if !reach[b] {
			continue
		}
		for _, s := range b.Succs {
			if fx.isBackEdge(b, s) {
				if fx.loops[s] == nil {
					fx.loops[s] = &loopInfo{header: s, body: map[*ssa.BasicBlock]bool{s: true}}
					headers = append(headers, s)
				}
				// natural loop of back edge b->s
				li := fx.loops[s]
				stack := []*ssa.BasicBlock{b}
				for len(stack) > 0 {
					x := stack[len(stack)-1]
					stack = stack[:len(stack)-1]
					if li.body[x] {
						continue
					}
					li.body[x] = true
					stack = append(stack, x.Preds...)
				}
			}
		}
	}
	// ordinal by source position of the header's first positioned instruction, fallback block index
	sort.SliceStable(headers, func(i, j int) bool {
		pi, pj := fx.loopPos(headers[i]), fx.loopPos(headers[j])
		if pi != pj {
			return pi < pj
		}
		return headers[i].Index < headers[j].Index
	})
	for i, h := range headers {
		li := fx.loops[h]
		li.ordinal = i + 1
		if fx.fc != nil {
			li.lc = fx.fc.Loops[i+1]
		}
	}
	// innermost loop per block: smallest body containing it
	for _, b := range fn.Blocks {
		var best *loopInfo
		for _, li := range fx.loops {
			if li.body[b] && (best == nil || len(li.body) < len(best.body)) {
				best = li
			}
		}
		fx.inLoop[b] = best
	}
	if fx.fc != nil {
		for n := range fx.fc.Loops {
			if n < 1 || n > len(headers) {
				fx.fail("contract names loop %d but the function has %d loops (contract-mismatch)", n, len(headers))
			}
		}
	}
}

func (fx *FX) loopPos(h *ssa.BasicBlock) token.Pos {
	best := token.Pos(1 << 40)
	li := fx.loops[h]
	for b := range li.body {
		for _, in := range b.Instrs {
			if p := in.Pos(); p.IsValid() && p < best {
				best = p
			}
		}
	}
	return best
}

func (fx *FX) reachable() map[*ssa.BasicBlock]bool {
	seen := map[*ssa.BasicBlock]bool{}
	var dfs func(b *ssa.BasicBlock)
	dfs = func(b *ssa.BasicBlock) {
		if seen[b] {
			return
		}
		seen[b] = true
		for _, s := range b.Succs {
			dfs(s)
		}
	}
	dfs(fx.fn.Blocks[0])
	return seen
}

// blockOrder: reverse postorder over forward edges.
func (fx *FX) blockOrder() []*ssa.BasicBlock {
	seen := map[*ssa.BasicBlock]bool{}
	var post []*ssa.BasicBlock
	var dfs func(b *ssa.BasicBlock)
	dfs = func(b *ssa.BasicBlock) {
		seen[b] = true
		for _, s := range b.Succs {
			if !seen[s] && !fx.isBackEdge(b, s) {
				dfs(s)
			}
		}
		post = append(post, b)
	}
	dfs(fx.fn.Blocks[0])
	for i, j := 0, len(post)-1; i < j; i, j = i+1, j-1 {
		post[i], post[j] = post[j], post[i]
	}
	return post
}

func (fx *FX) edgeCond(from, to *ssa.BasicBlock, idx int) T {
	st := fx.out[from]
	if st == nil {
		return tFalse
	}
	last := from.Instrs[len(from.Instrs)-1]
	if ifi, ok := last.(*ssa.If); ok {
		c := fx.boolT(ifi.Cond)
		if from.Succs[0] == to && from.Succs[1] == to {
			return st.PC
		}
		if idx == 0 {
			return and(st.PC, c)
		}
		return and(st.PC, not(c))
	}
	return st.PC
}

func succIndex(from, to *ssa.BasicBlock, predIdx int) int {
	// which successor slot of `from` leads to `to` for the predIdx-th pred entry
	cnt := 0
	for i := 0; i < predIdx; i++ {
		if to.Preds[i] == from {
			cnt++
		}
	}
	k := 0
	for i, s := range from.Succs {
		if s == to {
			if k == cnt {
				return i
			}
			k++
		}
	}
	return 0
}

func (fx *FX) mergeStates(conds []T, sts []*State) *State {
	if len(sts) == 1 {
		s := sts[0].clone()
		s.PC = fx.def("pc", conds[0])
		return s
	}
	res := sts[len(sts)-1].clone()
	for i := len(sts) - 2; i >= 0; i-- {
		res.H = ite(conds[i], sts[i].H, res.H)
		res.Hs = ite(conds[i], sts[i].Hs, res.Hs)
		res.Alloc = ite(conds[i], sts[i].Alloc, res.Alloc)
		res.Pooled = ite(conds[i], sts[i].Pooled, res.Pooled)
		res.Released = ite(conds[i], sts[i].Released, res.Released)
		res.Frozen = ite(conds[i], sts[i].Frozen, res.Frozen)
		res.Now = ite(conds[i], sts[i].Now, res.Now)
		res.NowN = ite(conds[i], sts[i].NowN, res.NowN)
	}
	res.H = fx.def("H", res.H)
	res.Hs = fx.def("Hs", res.Hs)
	res.Alloc = fx.def("alloc", res.Alloc)
	res.Pooled = fx.def("pooled", res.Pooled)
	res.Released = fx.def("released", res.Released)
	res.Frozen = fx.def("frozen", res.Frozen)
	res.PC = fx.def("pc", or(conds...))
	// private locals: keep the version only if all predecessors agree
	for a, v := range res.Priv {
		for _, o := range sts {
			if ov, ok := o.Priv[a]; !ok || ov != v {
				delete(res.Priv, a)
				break
			}
		}
	}
	for a, m := range res.PrivVals {
		for off, t := range m {
			for _, o := range sts {
				if ot, ok := o.PrivVals[a][off]; !ok || ot != t {
					delete(m, off)
					break
				}
			}
		}
	}
	return res
}

func (fx *FX) execBlock(b *ssa.BasicBlock, entry *State) {
	fx.curBlock = b
	var st *State
	li := fx.loops[b]
	if b.Index == 0 {
		st = entry
	} else {
		var conds []T
		var sts []*State
		var predIdx []int
		for i, p := range b.Preds {
			if fx.isBackEdge(p, b) || fx.out[p] == nil {
				continue
			}
			c := fx.def("edge", fx.edgeCond(p, b, succIndex(p, b, i)))
			conds = append(conds, c)
			sts = append(sts, fx.out[p])
			predIdx = append(predIdx, i)
		}
		if len(sts) == 0 {
			return // unreachable
		}
		if li != nil {
			fx.enterLoop(li, b, conds, sts, predIdx)
			st = li.st.clone()
		} else {
			st = fx.mergeStates(conds, sts)
			// phis
			for _, in := range b.Instrs {
				phi, ok := in.(*ssa.Phi)
				if !ok {
					break
				}
				var v Val
				for k := len(predIdx) - 1; k >= 0; k-- {
					ev := fx.val(phi.Edges[predIdx[k]])
					if v == nil {
						v = ev
					} else {
						v = iteVal(phi.Type(), conds[k], ev, v)
					}
				}
				fx.vals[phi] = fx.defVal("phi_"+phi.Comment, phi.Type(), v)
				fx.bindName(st, phi.Comment, phi)
			}
		}
		// dominance fact (valid, redundant): reaching this block implies having reached its dominator
		if d := b.Idom(); d != nil && fx.out[d] != nil && li == nil {
			fx.assume(st.PC, fx.out[d].PC)
		}
		fx.curDefers = nil
		// defers: union of predecessor lists (only straight-line defer use is supported)
		for _, k := range predIdx {
			if d := fx.defers[b.Preds[k]]; len(d) > len(fx.curDefers) {
				fx.curDefers = d
			}
		}
	}
	for _, in := range b.Instrs {
		if _, ok := in.(*ssa.Phi); ok {
			continue
		}
		fx.execInstr(st, in)
	}
	fx.out[b] = st
	fx.defers[b] = fx.curDefers
	// back edges out of this block
	for si, s := range b.Succs {
		if fx.isBackEdge(b, s) {
			fx.closeLoop(fx.loops[s], b, si)
		}
	}
}

// enterLoop: prove the invariant on entry edges, havoc the loop targets, assume the invariant.
func (fx *FX) enterLoop(li *loopInfo, h *ssa.BasicBlock, conds []T, sts []*State, predIdx []int) {
	fx.curBlock = h.Idom() // entry obligations belong to the enclosing context
	if fx.curBlock == nil {
		fx.curBlock = fx.fn.Blocks[0]
	}
	var phis []*ssa.Phi
	for _, in := range h.Instrs {
		if phi, ok := in.(*ssa.Phi); ok {
			phis = append(phis, phi)
		} else {
			break
		}
	}
	if fx.mapRangeLoop(li) && fx.stringKeyRange(li) {
		li.seenHdr = fx.fresh("rangeseen", SKeySet)
		li.countHdr = fx.fresh("rangecount", SInt)
		fx.assume(tTrue, ge(li.countHdr, num(0)))
	}
	// entry obligations
	for k := range sts {
		env := fx.loopEnv(li, sts[k], func(phi *ssa.Phi) Val { return fx.val(phi.Edges[predIdx[k]]) }, phis)
		if li.seenHdr.S != "" {
			env.rangeSeen = T{"((as const (Array BSeq Bool)) false)", SKeySet}
			env.rangeCount = num(0)
		}
		if li.lc != nil {
			for _, c := range li.lc.Inv {
				fx.safeClause = c.Safe
				fx.oblige("inv-entry", fmt.Sprintf("loop%d.%s", li.ordinal, c.Label), conds[k], fx.goalBool(env, c.E), h.Instrs[0].Pos(), c.Src)
				fx.safeClause = false
			}
		}
	}
	if li.lc != nil && li.lc.Bound > 0 {
		if li.lc.Decreases == nil {
			fx.oblige("bound", fmt.Sprintf("loop%d", li.ordinal), tTrue, tFalse, h.Instrs[0].Pos(), "bound needs a decreases clause")
		} else {
			for k := range sts {
				env := fx.loopEnv(li, sts[k], func(phi *ssa.Phi) Val { return fx.val(phi.Edges[predIdx[k]]) }, phis)
				fx.oblige("bound", fmt.Sprintf("loop%d", li.ordinal), conds[k], le(fx.evalInt(env, li.lc.Decreases.E), num(li.lc.Bound)), h.Instrs[0].Pos(),
					fmt.Sprintf("the loop measure is at most %d on entry, so the loop runs at most %d times", li.lc.Bound, li.lc.Bound))
			}
		}
	}
	pre := fx.mergeStates(conds, sts)
	// havoc
	st := pre.clone()
	havocAll := false
	seen := map[string]bool{}
	for blk := range li.body {
		for _, in := range blk.Instrs {
			for _, w := range fx.writesOf(in) {
				root := rootOf(w)
				if phi, ok := root.(*ssa.Phi); ok {
					// follow loop-carried slices (append chains)
					for _, r := range fx.phiRoots(phi, map[*ssa.Phi]bool{}) {
						fx.havocRoot(li, st, r, seen, &havocAll)
					}
					continue
				}
				fx.havocRoot(li, st, root, seen, &havocAll)
			}
		}
	}
	if havocAll {
		fx.note("loop %d writes through an address computed inside the loop: whole heap havocked at the loop head", li.ordinal)
		st.H = fx.fresh("Hloop", SHeap)
		st.Hs = fx.fresh("Hsloop", SSHeap)
	}
	// A loop whose body allocates: the set of allocated objects at the header is an arbitrary superset of the one
	// before the loop (objects of earlier iterations), so that an object allocated in this iteration is distinct
	// from everything the loop-carried values refer to (those are allocated at the header, or nil).
	allocates := false
	for blk := range li.body {
		for _, in := range blk.Instrs {
			switch in.(type) {
			case *ssa.Alloc, *ssa.MakeSlice, *ssa.MakeMap, *ssa.MakeInterface, *ssa.MakeClosure, ssa.CallInstruction:
				allocates = true
			}
		}
	}
	for blk := range li.body {
		for _, in := range blk.Instrs {
			if ci, ok := in.(ssa.CallInstruction); ok {
				if cal := ci.Common().StaticCallee(); cal != nil && cal.String() == "time.Now" {
					st.Now = fx.fresh("nowloop", SInt)
					st.NowN = fx.fresh("nowcalls", SInt)
				}
			}
		}
	}
	if allocates {
		preAlloc := st.Alloc
		st.Alloc = fx.fresh("allocloop", SSet)
		fx.line(fmt.Sprintf("(assert (forall ((r!l Int)) (! (=> (select %s r!l) (select %s r!l)) :pattern ((select %s r!l)))))", preAlloc.S, st.Alloc.S, st.Alloc.S))
		fx.assume(tTrue, not(sel(st.Alloc, num(0))))
	}
	for _, phi := range phis {
		fx.vals[phi] = fx.havoc("loop_"+phi.Comment, phi.Type(), tTrue)
		// inferred invariant: a slice that starts at offset 0 of its backing object and is only ever re-bound to
		// append(itself, ...) stays at offset 0 (append keeps the offset in place and returns offset 0 when it grows)
		if sv, ok := fx.vals[phi].(VSlice); ok && fx.offsetZeroPhi(phi, h, li) {
			sv.Off = num(0)
			fx.vals[phi] = sv
		}
		if allocates {
			ts := flatten(fx.vals[phi])
			for i, l := range layout(phi.Type()) {
				if l.kind == lkRef && i < len(ts) {
					fx.assume(tTrue, or(eq(ts[i], num(0)), sel(st.Alloc, ts[i])))
				}
			}
		}
	}
	st.Priv = map[*ssa.Alloc][2]T{}
	st.PrivVals = map[*ssa.Alloc]map[int64]T{}
	li.st = st
	fx.curBlock = h
	env := fx.loopEnv(li, st, func(phi *ssa.Phi) Val { return fx.vals[phi] }, phis)
	if li.lc != nil {
		for _, c := range li.lc.Inv {
			g := st.PC
			if !c.Safe && fx.domainAll.S != "" {
				g = and(g, fx.domainAll)
			}
			fx.assume(g, fx.hypBool(env, c.E))
		}
		if li.lc.Decreases != nil {
			li.variant = fx.def("variant", fx.evalInt(env, li.lc.Decreases.E))
		}
		for _, sp := range li.lc.Splits {
			t := fx.def("lsplit", fx.evalInt(env, sp.E))
			sc := splitCase{term: t, lo: sp.Lo, hi: sp.Hi, name: exprName(sp.E)}
			fx.oblige("split-exhaustive", fmt.Sprintf("loop%d.%s", li.ordinal, sc.name), st.PC, and(le(num(sp.Lo), t), le(t, num(sp.Hi))), h.Instrs[0].Pos(), sp.Src)
			li.splits = append(li.splits, sc)
		}
	}
	if (li.lc == nil || li.lc.Decreases == nil) && fx.mapRangeLoop(li) {
		fx.note("loop %d ranges over a map that is not modified in the loop: it terminates by the semantics of range (each key at most once)", li.ordinal)
	} else if li.lc == nil || li.lc.Decreases == nil {
		// termination is an obligation of every loop: without a measure it cannot be discharged
		fx.oblige("variant", fmt.Sprintf("loop%d.missing", li.ordinal), st.PC, tFalse, h.Instrs[0].Pos(), "loop has no decreases clause")
	}
}

// offsetZeroPhi: every entry edge of the slice phi has a literal offset 0 and every back edge is append(phi, ...).
func (fx *FX) offsetZeroPhi(phi *ssa.Phi, h *ssa.BasicBlock, li *loopInfo) bool {
	for i, e := range phi.Edges {
		if li.body[h.Preds[i]] {
			c, ok := e.(*ssa.Call)
			if !ok {
				return false
			}
			bi, ok := c.Call.Value.(*ssa.Builtin)
			if !ok || bi.Name() != "append" || c.Call.Args[0] != ssa.Value(phi) {
				return false
			}
			continue
		}
		v, ok := fx.vals[e].(VSlice)
		if !ok {
			if _, isC := e.(*ssa.Const); isC {
				continue // nil slice: offset 0
			}
			return false
		}
		if k, lit := isLit(v.Off); !lit || k != 0 {
			return false
		}
	}
	return true
}

// mapRangeLoop: the loop is a `for range m` over a map whose iterator is created outside the loop
// and the loop body neither updates nor deletes from a map.
func (fx *FX) mapRangeLoop(li *loopInfo) bool {
	isRange := false
	for _, in := range li.header.Instrs {
		if nx, ok := in.(*ssa.Next); ok && !nx.IsString {
			if r, ok := nx.Iter.(*ssa.Range); ok && !li.body[r.Block()] {
				if _, isMap := r.X.Type().Underlying().(*types.Map); isMap {
					isRange = true
				}
			}
		}
	}
	if !isRange {
		return false
	}
	// the loop must be controlled by the iterator: header branches on the extracted ok
	for b := range li.body {
		for _, in := range b.Instrs {
			switch x := in.(type) {
			case *ssa.MapUpdate:
				_ = x
				// updating a different, locally created map is fine; the ranged map must be a different value
				if rg := fx.rangedMap(li); rg != nil && x.Map == rg {
					return false
				}
			case ssa.CallInstruction:
				if bi, ok := x.Common().Value.(*ssa.Builtin); ok && bi.Name() == "delete" {
					return false
				}
			}
		}
	}
	return true
}

// stringKeyRange: the ranged map has string keys.
func (fx *FX) stringKeyRange(li *loopInfo) bool {
	if m := fx.rangedMap(li); m != nil {
		if mt, ok := m.Type().Underlying().(*types.Map); ok {
			if b, ok := mt.Key().Underlying().(*types.Basic); ok && b.Info()&types.IsString != 0 {
				return true
			}
		}
	}
	return false
}

// rangeKey: the key produced by this iteration's next.
func (fx *FX) rangeKey(li *loopInfo) (T, bool) {
	for _, in := range li.header.Instrs {
		if nx, ok := in.(*ssa.Next); ok {
			if tv, ok := fx.vals[nx].(VTuple); ok && len(tv.E) > 1 {
				if kv, ok := tv.E[1].(VStr); ok {
					return kv.T, true
				}
			}
		}
	}
	return T{}, false
}

func (fx *FX) rangedMap(li *loopInfo) ssa.Value {
	for _, in := range li.header.Instrs {
		if nx, ok := in.(*ssa.Next); ok {
			if r, ok := nx.Iter.(*ssa.Range); ok {
				return r.X
			}
		}
	}
	return nil
}

func (fx *FX) phiRoots(phi *ssa.Phi, seen map[*ssa.Phi]bool) []ssa.Value {
	if seen[phi] {
		return nil
	}
	seen[phi] = true
	var out []ssa.Value
	for _, e := range phi.Edges {
		r := rootOf(e)
		for {
			if c, ok := r.(*ssa.Call); ok {
				if bi, ok := c.Call.Value.(*ssa.Builtin); ok && bi.Name() == "append" {
					r = rootOf(c.Call.Args[0])
					continue
				}
			}
			break
		}
		if p2, ok := r.(*ssa.Phi); ok {
			out = append(out, fx.phiRoots(p2, seen)...)
		} else {
			out = append(out, r)
		}
	}
	return out
}

func (fx *FX) havocRoot(li *loopInfo, st *State, root ssa.Value, seen map[string]bool, havocAll *bool) {
	if in, ok := root.(ssa.Instruction); ok && li.body[in.Block()] {
		switch root.(type) {
		case *ssa.Alloc, *ssa.MakeSlice, *ssa.MakeInterface, *ssa.MakeClosure, *ssa.MakeMap:
			return // fresh in every iteration
		case *ssa.Call:
			if c := root.(*ssa.Call); c != nil {
				if bi, ok := c.Call.Value.(*ssa.Builtin); ok && bi.Name() == "append" {
					return
				}
			}
			*havocAll = true
			return
		default:
			*havocAll = true
			return
		}
	}
	if c, ok := root.(*ssa.Const); ok && c.Value == nil {
		return
	}
	v := fx.val(root)
	var ref T
	switch x := v.(type) {
	case VPtr:
		ref = x.Ref
	case VSlice:
		ref = x.Ref
	case VMap:
		return
	default:
		*havocAll = true
		return
	}
	if seen[ref.S] {
		return
	}
	seen[ref.S] = true
	st.H = fx.def("H", sto(st.H, ref, fx.fresh("loopobj", SIArr)))
	var et types.Type
	switch x := v.(type) {
	case VPtr:
		et = x.Elem
	case VSlice:
		et = x.Elem
	}
	if hasStrLeaf(et) {
		st.Hs = fx.def("Hs", sto(st.Hs, ref, fx.fresh("loopsobj", SSArr)))
	}
}

// writesOf lists the address operands an instruction may write through.
func (fx *FX) writesOf(in ssa.Instruction) []ssa.Value {
	switch x := in.(type) {
	case *ssa.Store:
		return []ssa.Value{x.Addr}
	case *ssa.MapUpdate:
		return nil
	case ssa.CallInstruction:
		c := x.Common()
		if bi, ok := c.Value.(*ssa.Builtin); ok {
			switch bi.Name() {
			case "copy", "append":
				return []ssa.Value{c.Args[0]}
			}
			return nil
		}
		if callee := c.StaticCallee(); callee != nil {
			var out []ssa.Value
			if fc := fx.u.contractOf(callee); fc != nil {
				for _, m := range fc.Modifies {
					if id, ok := m.(EIdent); ok {
						for i, p := range callee.Params {
							nm := p.Name()
							if i < len(fc.Params) {
								nm = fc.Params[i]
							}
							if nm == id.Name && i < len(c.Args) {
								out = append(out, c.Args[i])
							}
						}
					}
				}
			}
			if m := fx.u.modelFor(callee); m != nil {
				for _, i := range m.Writes {
					if i < len(c.Args) {
						out = append(out, c.Args[i])
					}
				}
			}
			return out
		}
		if c.IsInvoke() {
			if m := fx.u.invokeModel(c); m != nil {
				var out []ssa.Value
				for _, i := range m.Writes {
					if i == -1 {
						out = append(out, c.Value)
					} else if i < len(c.Args) {
						out = append(out, c.Args[i])
					}
				}
				return out
			}
		}
	}
	return nil
}

func (fx *FX) loopEnv(li *loopInfo, st *State, phiVal func(*ssa.Phi) Val, phis []*ssa.Phi) *Env {
	env := fx.entryEnv(fx.entry)
	env.st = st
	env.local = map[string]Val{}
	env.localT = map[string]types.Type{}
	for _, phi := range phis {
		if phi.Comment != "" {
			env.local[phi.Comment] = phiVal(phi)
			env.localT[phi.Comment] = phi.Type()
		}
	}
	env.inLoop = true
	env.rangeSeen = li.seenHdr
	env.rangeCount = li.countHdr
	return env
}

func lastPos(b *ssa.BasicBlock) token.Pos {
	for i := len(b.Instrs) - 1; i >= 0; i-- {
		if p := b.Instrs[i].Pos(); p.IsValid() {
			return p
		}
	}
	for _, p := range b.Preds {
		for i := len(p.Instrs) - 1; i >= 0; i-- {
			if q := p.Instrs[i].Pos(); q.IsValid() {
				return q
			}
		}
	}
	return token.NoPos
}

func (fx *FX) closeLoop(li *loopInfo, from *ssa.BasicBlock, succIdx int) {
	h := li.header
	st := fx.out[from]
	cond := fx.def("backedge", fx.edgeCond(from, h, succIdx))
	var phis []*ssa.Phi
	for _, in := range h.Instrs {
		if phi, ok := in.(*ssa.Phi); ok {
			phis = append(phis, phi)
		} else {
			break
		}
	}
	pidx := -1
	cnt := 0
	for i, p := range h.Preds {
		if p == from {
			// match the succIdx-th occurrence
			k := 0
			for j := 0; j < succIdx; j++ {
				if from.Succs[j] == h {
					k++
				}
			}
			if cnt == k {
				pidx = i
			}
			cnt++
		}
	}
	fx.curBlock = from
	env := fx.loopEnv(li, st, func(phi *ssa.Phi) Val { return fx.val(phi.Edges[pidx]) }, phis)
	if li.seenHdr.S != "" {
		if k, ok := fx.rangeKey(li); ok {
			env.rangeSeen = sto(li.seenHdr, k, tTrue)
		}
		env.rangeCount = add(li.countHdr, num(1))
	}
	if li.lc != nil {
		for _, c := range li.lc.Inv {
			fx.safeClause = c.Safe
			fx.oblige("inv-pres", fmt.Sprintf("loop%d.%s", li.ordinal, c.Label), cond, fx.goalBool(env, c.E), lastPos(from), c.Src)
			fx.safeClause = false
		}
		if li.lc.Decreases != nil {
			nv := fx.evalInt(env, li.lc.Decreases.E)
			fx.oblige("variant", fmt.Sprintf("loop%d", li.ordinal), cond, and(ge(li.variant, num(0)), lt(nv, li.variant)), lastPos(from), li.lc.Decreases.Src)
		}
	}
}

// ---------------------------------------------------------------------------
// environments for contract evaluation

type Env struct {
	fx           *FX
	st           *State // state in which heap expressions are read
	old          *State // entry state
	local        map[string]Val
	localT       map[string]types.Type
	bound        map[string]Val
	inLoop       bool
	calleeMode   bool
	calleeParams map[string]Val
	rangeCount   T // ghost: number of keys visited so far by the enclosing map-range loop
	rangeSeen    T // ghost: keys visited so far by the enclosing map-range loop
}

func (fx *FX) entryEnv(st *State) *Env {
	return &Env{fx: fx, st: st, old: fx.entry, bound: map[string]Val{}}
}

func (e *Env) with(name string, v Val) *Env {
	c := *e
	c.bound = map[string]Val{}
	for k, x := range e.bound {
		c.bound[k] = x
	}
	c.bound[name] = v
	return &c
}

func (e *Env) lookup(name string) (Val, bool) {
	if v, ok := e.bound[name]; ok {
		return v, true
	}
	if e.local != nil {
		if v, ok := e.local[name]; ok {
			return v, true
		}
	}
	fx := e.fx
	if e.calleeMode {
		if v, ok := e.calleeParams[name]; ok {
			return v, true
		}
		if strings.HasSuffix(name, "0") {
			if v, ok := e.calleeParams[name[:len(name)-1]]; ok {
				return v, true
			}
		}
		if g := fx.u.globalByName(name); g != nil {
			return fx.val(g), true
		}
		return nil, false
	}
	if v, ok := fx.lets[name]; ok {
		return v, true
	}
	if strings.HasSuffix(name, "0") {
		if v, ok := fx.params[name[:len(name)-1]]; ok {
			return v, true
		}
	}
	if v, ok := fx.params[name]; ok {
		return v, true
	}
	if sv, ok := fx.names[name]; ok {
		if v, ok := fx.vals[sv]; ok {
			return v, true
		}
	}
	if g := fx.u.globalByName(name); g != nil {
		return fx.val(g), true
	}
	return nil, false
}

// privStore records the leaves stored into a private local at a literal offset (or forgets the local).
func (fx *FX) privStore(st *State, a *ssa.Alloc, off T, ts []T) {
	if st.PrivVals == nil {
		st.PrivVals = map[*ssa.Alloc]map[int64]T{}
	}
	o, lit := isLit(off)
	if !lit {
		delete(st.PrivVals, a)
		return
	}
	m := st.PrivVals[a]
	if m == nil {
		m = map[int64]T{}
		st.PrivVals[a] = m
	}
	for i, t := range ts {
		m[o+int64(i)] = t
	}
}

// privLoad returns the forwarded leaves of a load from a private local, if every slot is known.
func (fx *FX) privLoad(st *State, a *ssa.Alloc, off T, n int) ([]T, bool) {
	o, lit := isLit(off)
	m := st.PrivVals[a]
	if !lit || m == nil {
		return nil, false
	}
	ts := make([]T, n)
	for i := 0; i < n; i++ {
		t, ok := m[o+int64(i)]
		if !ok {
			return nil, false
		}
		ts[i] = t
	}
	return ts, true
}
