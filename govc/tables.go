package main

// Ground obligations over package-level tables read from the compiled initialiser.

import (
	"go/types"
	"fmt"
	"math/big"
	"os"
	"regexp"
	"strconv"
	"strings"

	"golang.org/x/tools/go/ssa"
)

// suiteOf: the configuration an RFC 6287 suite string denotes (trusted 40-line tokenizer):
//   OCRA-1:HOTP-<SHA1|SHA256|SHA512>-<digits>:<tok>(-<tok>)*
//   C | Q<N|A|H><08|10> | PSHA<1|256|512> | S[nnn] | T<n>[S|M|H]   (unit-less T<n>: n seconds)
type suiteMeaning struct {
	ok                                      bool
	why                                     string
	hash, digits, challenge                 int64
	c, q, p, s, t                           bool
	pwHash, timeStep                        int64
}

var (
	reQ = regexp.MustCompile(`^Q([NAH])(08|10)$`)
	reP = regexp.MustCompile(`^PSHA(1|256|512)$`)
	reS = regexp.MustCompile(`^S([0-9]{3})?$`)
	reT = regexp.MustCompile(`^T([0-9]+)([SMH]?)$`)
)

func suiteOf(name string) suiteMeaning {
	var m suiteMeaning
	parts := strings.Split(name, ":")
	if len(parts) != 3 || parts[0] != "OCRA-1" {
		m.why = "not OCRA-1:<crypto>:<data>"
		return m
	}
	cr := strings.Split(parts[1], "-")
	if len(cr) != 3 || cr[0] != "HOTP" {
		m.why = "bad crypto function"
		return m
	}
	switch cr[1] {
	case "SHA1":
		m.hash = 0
	case "SHA256":
		m.hash = 1
	case "SHA512":
		m.hash = 2
	default:
		m.why = "bad hash"
		return m
	}
	d, err := strconv.Atoi(cr[2])
	if err != nil {
		m.why = "bad digits"
		return m
	}
	m.digits = int64(d)
	for _, tok := range strings.Split(parts[2], "-") {
		switch {
		case tok == "C":
			m.c = true
		case reQ.MatchString(tok):
			g := reQ.FindStringSubmatch(tok)
			m.q = true
			m.challenge = map[string]int64{"N08": 1, "N10": 2, "A08": 3, "A10": 4, "H08": 5, "H10": 6}[g[1]+g[2]]
		case reP.MatchString(tok):
			m.p = true
			m.pwHash = map[string]int64{"1": 1, "256": 2, "512": 3}[reP.FindStringSubmatch(tok)[1]]
		case reS.MatchString(tok):
			m.s = true
		case reT.MatchString(tok):
			g := reT.FindStringSubmatch(tok)
			n, _ := strconv.ParseInt(g[1], 10, 64)
			m.t = true
			m.timeStep = n * map[string]int64{"": 1, "S": 1, "M": 60, "H": 3600}[g[2]]
		default:
			m.why = "unknown token " + tok
			return m
		}
	}
	m.ok = true
	return m
}

func cvInt(v cval) (int64, bool) {
	switch x := v.(type) {
	case cint:
		return x.v.Int64(), true
	case cbool:
		if x.v {
			return 1, true
		}
		return 0, true
	}
	return 0, false
}

// tableObligations generates the ground obligations of the read-only tables of package otp.
func (u *Unit) tableObligations(fre, kre *regexp.Regexp) ([]*Obligation, []FuncOut) {
	var out []*Obligation
	var fo []FuncOut
	mk := func(fn, label string, holds bool, src string) {
		name := fmt.Sprintf("%s.%s/table:%s", u.Name, fn, label)
		goal := tTrue
		if !holds {
			goal = tFalse
		}
		o := &Obligation{Name: name, Kind: "table", Func: fn, Unit: u.Name, Guard: tTrue, Goal: goal, Extra: tTrue, Src: src, Trivial: true}
		if fre.MatchString(fn) && kre.MatchString(name) {
			out = append(out, o)
		}
	}
	// mod10[d] == 10^d for d = 1..10
	if g := u.globalByName("mod10"); g != nil && u.internalPkg(g.Pkg) {
		o := u.globalObj(g)
		n := 0
		for d := 1; d < len(o.slots) && d <= 10; d++ {
			want := new(big.Int).Exp(big.NewInt(10), big.NewInt(int64(d)), nil)
			v, ok := o.slots[d].(cint)
			mk("otp.table$mod10", fmt.Sprintf("mod10[%d]", d), ok && v.v.Cmp(want) == 0, fmt.Sprintf("mod10[%d] == 10^%d", d, d))
			n++
		}
		mk("otp.table$mod10", "mod10.len", len(o.slots) == 11, "len(mod10) == 11")
		fo = append(fo, FuncOut{Name: "otp.table$mod10", Unit: u.Name, HasContract: true, Obligations: n + 1})
	}
	// knownSuites: every entry means what its name says; every advertised name is usable
	if g := u.globalByName("knownSuites"); g != nil && u.internalPkg(g.Pkg) {
		o := u.globalObj(g)
		var cm *cmap
		if len(o.slots) == 1 {
			if cr, ok := o.slots[0].(cref); ok && cr.obj != nil {
				cm, _ = cr.obj.slots0Map()
			}
		}
		n := 0
		if cm != nil {
			seen := map[string]bool{}
			for i, k := range cm.keys {
				ks, ok := k.(cstr)
				if !ok {
					continue
				}
				name := ks.v
				m := suiteOf(name)
				vals := cm.vals[i]
				// SuiteConfig layout: Raw, Hash, Digits, Challenge, C, Q, P, S, T, PasswordHash, TimeStep
				get := func(j int) int64 { v, _ := cvInt(vals[j]); return v }
				b := func(x bool) int64 {
					if x {
						return 1
					}
					return 0
				}
				var diffs []string
				if !m.ok {
					diffs = append(diffs, "name is not a well-formed suite string: "+m.why)
				} else {
					chk := func(f string, got, want int64) {
						if got != want {
							diffs = append(diffs, fmt.Sprintf("%s is %d, the name says %d", f, got, want))
						}
					}
					chk("Hash", get(1), m.hash)
					chk("Digits", get(2), m.digits)
					chk("Challenge", get(3), m.challenge)
					chk("IncludeCounter", get(4), b(m.c))
					chk("IncludeChallenge", get(5), b(m.q))
					chk("IncludePassword", get(6), b(m.p))
					chk("IncludeSession", get(7), b(m.s))
					chk("IncludeTimestamp", get(8), b(m.t))
					chk("PasswordHash", get(9), m.pwHash)
					chk("TimeStep", get(10), m.timeStep)
				}
				mk("otp.table$knownSuites", fmt.Sprintf("knownSuites[%q]", name), len(diffs) == 0, fmt.Sprintf("knownSuites[%q] == suiteOf(%q) %s", name, name, strings.Join(diffs, "; ")))
				usable := get(2) >= 4 && get(2) <= 10 && get(1) <= 2 && (get(6) == 0 || get(9) != 0) && (get(8) == 0 || get(10) > 0) && (get(5) == 0 || get(3) != 0)
				mk("otp.table$knownSuites", fmt.Sprintf("usable[%q]", name), usable, fmt.Sprintf("the advertised suite %q can be instantiated (its configuration is usable)", name))
				mk("otp.table$knownSuites", fmt.Sprintf("distinct[%q]", name), !seen[name], "registered names are distinct")
				seen[name] = true
				n += 3
			}
			mk("otp.table$knownSuites", "count", len(cm.keys) == 45, fmt.Sprintf("the registry has 45 entries (found %d)", len(cm.keys)))
		} else {
			mk("otp.table$knownSuites", "present", false, "knownSuites is a map literal of the initialiser")
		}
		fo = append(fo, FuncOut{Name: "otp.table$knownSuites", Unit: u.Name, HasContract: true, Obligations: n + 1})
	}
	// The panic barrier of the REST layer (structure of api.Recovery; Go's rule that recover() stops a panic only when
	// called directly by the deferred function is the trusted part). What the deferred function does with a recovered
	// panic is its own contract (api.Recovery$1$1, ghost `panicking`).
	for _, p := range u.Pkgs {
		rec, _ := p.Members["Recovery"].(*ssa.Function)
		if rec == nil || p.Pkg.Name() != "api" {
			continue
		}
		var R, D *ssa.Function
		if len(rec.AnonFuncs) > 0 {
			R = rec.AnonFuncs[0]
		}
		deferFirst, callsNext, recoverDirect := false, 0, false
		if R != nil && len(R.Blocks) > 0 {
			seenDefer := false
			for _, b := range R.Blocks {
				for _, in := range b.Instrs {
					switch x := in.(type) {
					case *ssa.Defer:
						if b == R.Blocks[0] && callsNext == 0 {
							switch v := x.Call.Value.(type) {
							case *ssa.MakeClosure:
								D, _ = v.Fn.(*ssa.Function)
							case *ssa.Function:
								D = v
							}
							seenDefer = D != nil
						}
					case *ssa.Call:
						val := x.Call.Value
						if u, ok := val.(*ssa.UnOp); ok {
							val = u.X
						}
						if fv, ok := val.(*ssa.FreeVar); ok && fv.Name() == "next" {
							callsNext++
							if callsNext == 1 && seenDefer && len(x.Call.Args) == 1 && len(R.Params) == 1 && types.Identical(x.Call.Args[0].Type(), R.Params[0].Type()) {
								deferFirst = true
							}
						}
					}
				}
			}
		}
		if D != nil {
			for _, b := range D.Blocks {
				for _, in := range b.Instrs {
					if c, ok := in.(*ssa.Call); ok {
						if bi, ok := c.Call.Value.(*ssa.Builtin); ok && bi.Name() == "recover" {
							recoverDirect = true
						}
					}
				}
			}
		}
		wired := false
		if ns, _ := p.Members["NewServer"].(*ssa.Function); ns != nil {
			hasRec, hasRouters := false, false
			for _, b := range ns.Blocks {
				for _, in := range b.Instrs {
					var ops []*ssa.Value
					for _, op := range in.Operands(ops) {
						if op == nil || *op == nil {
							continue
						}
						if f, ok := (*op).(*ssa.Function); ok {
							if f == rec {
								hasRec = true
							}
							if f.Name() == "routers" {
								hasRouters = true
							}
						}
					}
				}
			}
			wired = hasRec && hasRouters
		}
		// Logger (outermost): passes the request on exactly once and does not write the response itself
		if lg, _ := p.Members["Logger"].(*ssa.Function); lg != nil && len(lg.AnonFuncs) > 0 {
			L := lg.AnonFuncs[0]
			nextCalls, writes := 0, 0
			for _, b := range L.Blocks {
				for _, in := range b.Instrs {
					c, ok := in.(*ssa.Call)
					if !ok {
						continue
					}
					val := c.Call.Value
					if uo, ok := val.(*ssa.UnOp); ok {
						val = uo.X
					}
					if fv, ok := val.(*ssa.FreeVar); ok && fv.Name() == "next" {
						nextCalls++
					}
					if cal := c.Call.StaticCallee(); cal != nil && strings.Contains(cal.String(), "fasthttp.RequestCtx).") {
						switch n := cal.Name(); {
						case strings.HasPrefix(n, "Set"), strings.HasPrefix(n, "Write"), n == "Error", n == "Redirect", strings.HasPrefix(n, "Reset"), strings.HasPrefix(n, "Send"):
							writes++
						}
					}
				}
			}
			mk("api.table$Recovery", "Logger[calls-next-once]", nextCalls == 1, "the handler returned by Logger calls next(ctx) exactly once")
			mk("api.table$Recovery", "Logger[no-response-writes]", writes == 0, "Logger does not set status, headers or body itself")
		}
		// Chain: each middleware wraps what the previous ones built (the handler is accumulated, not restarted from
		// the innermost one), and the accumulated handler is what is returned
		if ch, _ := p.Members["Chain"].(*ssa.Function); ch != nil && len(ch.AnonFuncs) > 0 {
			C := ch.AnonFuncs[0]
			accumulates := false
			var acc *ssa.Phi
			for _, b := range C.Blocks {
				for _, in := range b.Instrs {
					c, ok := in.(*ssa.Call)
					if !ok || c.Call.StaticCallee() != nil || len(c.Call.Args) != 1 || !blockInLoop(b) {
						continue
					}
					if _, isB := c.Call.Value.(*ssa.Builtin); isB {
						continue
					}
					if phi, ok := c.Call.Args[0].(*ssa.Phi); ok && len(C.Params) == 1 {
						fromParam, fromCall := false, false
						for _, e := range phi.Edges {
							if e == ssa.Value(C.Params[0]) {
								fromParam = true
							}
							if e == ssa.Value(c) {
								fromCall = true
							}
						}
						if fromParam && fromCall {
							accumulates, acc = true, phi
						}
					}
				}
			}
			returnsAcc := acc != nil
			for _, b := range C.Blocks {
				for _, in := range b.Instrs {
					if r, ok := in.(*ssa.Return); ok {
						if len(r.Results) != 1 || r.Results[0] != ssa.Value(acc) {
							returnsAcc = false
						}
					}
				}
			}
			mk("api.table$Recovery", "Chain[accumulates]", accumulates, "in Chain's loop each middleware is applied to the handler built so far (seeded with final)")
			mk("api.table$Recovery", "Chain[returns-accumulated]", returnsAcc, "Chain returns the accumulated handler")
		}
		mk("api.table$Recovery", "Recovery[defer-before-next]", deferFirst, "the handler returned by Recovery defers its recovery function first and then calls next(ctx), once")
		mk("api.table$Recovery", "Recovery[recover-direct]", recoverDirect, "the deferred function itself calls recover() (a recover() inside a helper it calls would not stop the panic)")
		mk("api.table$Recovery", "Recovery[calls-next-once]", callsNext == 1, "next is called exactly once")
		mk("api.table$Recovery", "Recovery[wired]", wired, "NewServer builds its handler from routers wrapped in Recovery")
		fo = append(fo, FuncOut{Name: "api.table$Recovery", Unit: u.Name, HasContract: true, Obligations: 8})
	}
	// algoStrMap
	if g := u.globalByName("algoStrMap"); g != nil && u.internalPkg(g.Pkg) {
		o := u.globalObj(g)
		if len(o.slots) == 1 {
			if cr, ok := o.slots[0].(cref); ok && cr.obj != nil {
				if cm, ok := cr.obj.slots0Map(); ok {
					want := map[int64]string{0: "SHA1", 1: "SHA256", 2: "SHA512"}
					okAll := len(cm.keys) == 3
					for i, k := range cm.keys {
						ki, _ := cvInt(k)
						vs, _ := cm.vals[i][0].(cstr)
						if want[ki] != vs.v {
							okAll = false
						}
					}
					mk("otp.table$algoStrMap", "algoStrMap", okAll, "algoStrMap == {SHA1:\"SHA1\", SHA256:\"SHA256\", SHA512:\"SHA512\"}")
					fo = append(fo, FuncOut{Name: "otp.table$algoStrMap", Unit: u.Name, HasContract: true, Obligations: 1})
				}
			}
		}
	}
	return out, fo
}

// jsTableObligations: the export table of the JavaScript entry module and the names the Go side
// registers, as ground obligations. The JavaScript file is not Go: its export object is extracted
// with one regular expression (`<name>: globalThis.<global>`); everything else in the file is dropped.
func (u *Unit) jsTableObligations(repo string, fre, kre *regexp.Regexp) ([]*Obligation, []FuncOut) {
	var out []*Obligation
	mk := func(fn, label string, holds bool, src string) {
		name := fmt.Sprintf("%s.%s/table:%s", u.Name, fn, label)
		goal := tTrue
		if !holds {
			goal = tFalse
		}
		if fre.MatchString(fn) && kre.MatchString(name) {
			out = append(out, &Obligation{Name: name, Kind: "table", Func: fn, Unit: u.Name, Guard: tTrue, Goal: goal, Extra: tTrue, Src: src, Trivial: true})
		}
	}
	want := []string{"generateHOTP", "generateTOTP", "validateHOTP", "validateTOTP", "generateOTPURL"}
	// Go side: registerFunctions binds each global name to the Go function of the same name
	reg := map[string]string{}
	for _, p := range u.Pkgs {
		if fn := p.Func("registerFunctions"); fn != nil {
			for _, b := range fn.Blocks {
				for _, in := range b.Instrs {
					c, ok := in.(*ssa.Call)
					if !ok || c.Call.StaticCallee() == nil || c.Call.StaticCallee().String() != "(syscall/js.Value).Set" {
						continue
					}
					k, ok := c.Call.Args[1].(*ssa.Const)
					if !ok || k.Value == nil {
						continue
					}
					name := strings.Trim(k.Value.ExactString(), "\"")
					// the value: make any <- js.Func (FuncOf(f))
					var target string
					if mi, ok := c.Call.Args[2].(*ssa.MakeInterface); ok {
						if fc, ok := mi.X.(*ssa.Call); ok && fc.Call.StaticCallee() != nil && fc.Call.StaticCallee().String() == "syscall/js.FuncOf" {
							if f, ok := fc.Call.Args[0].(*ssa.Function); ok {
								target = f.Name()
							}
						}
					}
					reg[name] = target
				}
			}
		}
	}
	for _, n := range want {
		mk("main.table$registerFunctions", fmt.Sprintf("global[%s]", n), reg[n] == n, fmt.Sprintf("registerFunctions binds the global %q to the Go function %s (found %q)", n, n, reg[n]))
	}
	// main registers the functions and then keeps the module alive (blocks forever) so that they stay callable
	callsReg, blocks := false, false
	for _, p := range u.Pkgs {
		if fn := p.Func("main"); fn != nil && p.Pkg.Name() == "main" {
			for _, b := range fn.Blocks {
				for _, in := range b.Instrs {
					switch x := in.(type) {
					case *ssa.Call:
						if cal := x.Call.StaticCallee(); cal != nil && cal.Name() == "registerFunctions" && !blocks {
							callsReg = true
						}
					case *ssa.Select:
						if len(x.States) == 0 && x.Blocking {
							blocks = true
						}
					}
				}
			}
		}
	}
	mk("main.table$registerFunctions", "main[registers]", callsReg, "main calls registerFunctions (before it blocks)")
	mk("main.table$registerFunctions", "main[stays-alive]", blocks, "main then blocks forever (select {}), so the exported functions remain callable")
	// JavaScript side
	data, err := os.ReadFile(repo + "/otp-js/src/index.js")
	exp := map[string]string{}
	if err == nil {
		re := regexp.MustCompile(`(?m)^\s*([A-Za-z_]\w*)\s*:\s*globalThis\.([A-Za-z_]\w*)\s*,?\s*$`)
		for _, m := range re.FindAllStringSubmatch(string(data), -1) {
			exp[m[1]] = m[2]
		}
	}
	for _, n := range want {
		mk("main.table$index.js", fmt.Sprintf("index.js[%s]", n), exp[n] == n, fmt.Sprintf("otp-js/src/index.js exports %s as globalThis.%s (found globalThis.%s)", n, n, exp[n]))
	}
	mk("main.table$index.js", "index.js.count", len(exp) == len(want), fmt.Sprintf("index.js exports exactly the five binding functions (found %d)", len(exp)))
	return out, []FuncOut{{Name: "main.table$registerFunctions", Unit: u.Name, HasContract: true, Obligations: len(want) + 2}, {Name: "main.table$index.js", Unit: u.Name, HasContract: true, Obligations: len(want) + 1}}
}
