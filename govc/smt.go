package main

// SMT term construction, the sequence prelude and the solver portfolio.

import (
	"bytes"
	"context"
	"fmt"
	"math/big"
	"os"
	"os/exec"
	"strings"
	"sync"
	"time"
)

type Sort int

const (
	SInt Sort = iota
	SBool
	SSeq   // BSeq: mathematical finite byte/int sequence
	SIArr  // (Array Int Int)
	SSArr  // (Array Int BSeq)
	SHeap  // (Array Int (Array Int Int))
	SSHeap // (Array Int (Array Int BSeq))
	SSet   // (Array Int Bool)
	SKeySet // (Array BSeq Bool): set of string keys (ghost: keys visited by a map-range loop)
)

func (s Sort) String() string {
	switch s {
	case SInt:
		return "Int"
	case SBool:
		return "Bool"
	case SSeq:
		return "BSeq"
	case SIArr:
		return "(Array Int Int)"
	case SSArr:
		return "(Array Int BSeq)"
	case SHeap:
		return "(Array Int (Array Int Int))"
	case SSHeap:
		return "(Array Int (Array Int BSeq))"
	case SSet:
		return "(Array Int Bool)"
	case SKeySet:
		return "(Array BSeq Bool)"
	}
	return "?"
}

// T is an SMT term with its sort.
type T struct {
	S    string
	Sort Sort
}

func (t T) String() string { return t.S }

var (
	tTrue  = T{"true", SBool}
	tFalse = T{"false", SBool}
)

func num(n int64) T {
	if n < 0 {
		return T{fmt.Sprintf("(- %d)", -n), SInt}
	}
	return T{fmt.Sprintf("%d", n), SInt}
}

func bigNum(n *big.Int) T {
	if n.Sign() < 0 {
		return T{"(- " + new(big.Int).Neg(n).String() + ")", SInt}
	}
	return T{n.String(), SInt}
}

func isLit(t T) (int64, bool) {
	var n int64
	if _, err := fmt.Sscanf(t.S, "%d", &n); err == nil && fmt.Sprintf("%d", n) == t.S {
		return n, true
	}
	if strings.HasPrefix(t.S, "(- ") && strings.HasSuffix(t.S, ")") {
		in := t.S[3 : len(t.S)-1]
		if _, err := fmt.Sscanf(in, "%d", &n); err == nil && fmt.Sprintf("%d", n) == in {
			return -n, true
		}
	}
	return 0, false
}

func app(sort Sort, op string, args ...T) T {
	var b strings.Builder
	b.WriteByte('(')
	b.WriteString(op)
	for _, a := range args {
		b.WriteByte(' ')
		b.WriteString(a.S)
	}
	b.WriteByte(')')
	return T{b.String(), sort}
}

func and(ts ...T) T {
	var xs []T
	for _, t := range ts {
		if t.S == "true" {
			continue
		}
		if t.S == "false" {
			return tFalse
		}
		xs = append(xs, t)
	}
	if len(xs) == 0 {
		return tTrue
	}
	if len(xs) == 1 {
		return xs[0]
	}
	return app(SBool, "and", xs...)
}

func or(ts ...T) T {
	var xs []T
	for _, t := range ts {
		if t.S == "false" {
			continue
		}
		if t.S == "true" {
			return tTrue
		}
		xs = append(xs, t)
	}
	if len(xs) == 0 {
		return tFalse
	}
	if len(xs) == 1 {
		return xs[0]
	}
	return app(SBool, "or", xs...)
}

func not(t T) T {
	if t.S == "true" {
		return tFalse
	}
	if t.S == "false" {
		return tTrue
	}
	return app(SBool, "not", t)
}

func implies(a, b T) T {
	if a.S == "true" {
		return b
	}
	if a.S == "false" || b.S == "true" {
		return tTrue
	}
	return app(SBool, "=>", a, b)
}

func eq(a, b T) T {
	if a.S == b.S {
		return tTrue
	}
	if a.Sort == SSeq && b.Sort == SSeq {
		return app(SBool, "SeqEq", a, b)
	}
	return app(SBool, "=", a, b)
}

func ite(c, a, b T) T {
	if c.S == "true" {
		return a
	}
	if c.S == "false" {
		return b
	}
	if a.S == b.S {
		return a
	}
	return app(a.Sort, "ite", c, a, b)
}

func add(a, b T) T {
	if x, ok := isLit(a); ok {
		if y, ok := isLit(b); ok {
			return num(x + y)
		}
		if x == 0 {
			return b
		}
	}
	if y, ok := isLit(b); ok && y == 0 {
		return a
	}
	return app(SInt, "+", a, b)
}

func sub(a, b T) T {
	if x, ok := isLit(a); ok {
		if y, ok := isLit(b); ok {
			return num(x - y)
		}
	}
	if y, ok := isLit(b); ok && y == 0 {
		return a
	}
	return app(SInt, "-", a, b)
}

func mul(a, b T) T {
	if x, ok := isLit(a); ok {
		if y, ok := isLit(b); ok && x < 1<<30 && y < 1<<30 && x > -(1<<30) && y > -(1<<30) {
			return num(x * y)
		}
		if x == 1 {
			return b
		}
	}
	if y, ok := isLit(b); ok && y == 1 {
		return a
	}
	return app(SInt, "*", a, b)
}

func le(a, b T) T  { return app(SBool, "<=", a, b) }
func lt(a, b T) T  { return app(SBool, "<", a, b) }
func ge(a, b T) T  { return app(SBool, ">=", a, b) }
func gt(a, b T) T  { return app(SBool, ">", a, b) }
func sel(a, i T) T {
	var s Sort
	switch a.Sort {
	case SIArr:
		s = SInt
	case SSArr:
		s = SSeq
	case SHeap:
		s = SIArr
	case SSHeap:
		s = SSArr
	case SSet, SKeySet:
		s = SBool
	default:
		panic("sel on non-array " + a.S)
	}
	return app(s, "select", a, i)
}
func sto(a, i, v T) T { return app(a.Sort, "store", a, i, v) }

// euclidean/truncated division helpers: Go's / and % truncate toward zero; SMT
// div/mod are floor-like for positive divisors. For non-negative operands they agree.
func tdiv(a, b T) T {
	// truncated division valid for all signs
	return T{fmt.Sprintf("(tdiv %s %s)", a.S, b.S), SInt}
}
func tmod(a, b T) T { return T{fmt.Sprintf("(tmod %s %s)", a.S, b.S), SInt} }
func ediv(a, b T) T { return app(SInt, "div", a, b) }
func emod(a, b T) T { return app(SInt, "mod", a, b) }

func pow2(k uint) T { return bigNum(new(big.Int).Lsh(big.NewInt(1), k)) }

// ---------------------------------------------------------------------------
// prelude

const preludeCore = `
(declare-fun stamp (Int) Int)
(define-fun tdiv ((a Int) (b Int)) Int (ite (>= a 0) (div a b) (- (div (- a) b))))
(define-fun tmod ((a Int) (b Int)) Int (ite (>= a 0) (mod a (ite (>= b 0) b (- b))) (- (mod (- a) (ite (>= b 0) b (- b))))))
(define-fun imin ((a Int) (b Int)) Int (ite (<= a b) a b))
(define-fun imax ((a Int) (b Int)) Int (ite (>= a b) a b))
(define-fun pow10 ((e Int)) Int
  (ite (= e 0) 1 (ite (= e 1) 10 (ite (= e 2) 100 (ite (= e 3) 1000 (ite (= e 4) 10000
  (ite (= e 5) 100000 (ite (= e 6) 1000000 (ite (= e 7) 10000000 (ite (= e 8) 100000000
  (ite (= e 9) 1000000000 (ite (= e 10) 10000000000 (ite (= e 11) 100000000000
  (ite (= e 12) 1000000000000 (ite (= e 13) 10000000000000 (ite (= e 14) 100000000000000
  (ite (= e 15) 1000000000000000 (ite (= e 16) 10000000000000000 (ite (= e 17) 100000000000000000
  (ite (= e 18) 1000000000000000000 (ite (= e 19) 10000000000000000000 0)))))))))))))))))))))
(define-fun pow256 ((e Int)) Int
  (ite (= e 0) 1 (ite (= e 1) 256 (ite (= e 2) 65536 (ite (= e 3) 16777216 (ite (= e 4) 4294967296
  (ite (= e 5) 1099511627776 (ite (= e 6) 281474976710656 (ite (= e 7) 72057594037927936 (ite (= e 8) 18446744073709551616 0))))))))))
`

// Dafny-style axiomatisation of finite sequences over Int. The sort must not be
// called Seq (reserved by z3).
const preludeSeq = `
(declare-sort BSeq 0)
(declare-fun len (BSeq) Int)
(declare-fun at (BSeq Int) Int)
(declare-fun SeqEq (BSeq BSeq) Bool)
(declare-fun empty () BSeq)
(declare-fun cat (BSeq BSeq) BSeq)
(declare-fun sub (BSeq Int Int) BSeq)
(declare-fun single (Int) BSeq)
(declare-fun zeros (Int) BSeq)
(declare-fun view ((Array Int Int) Int Int) BSeq)
(declare-const zeroSArr (Array Int BSeq))
(assert (forall ((i Int)) (! (= (select zeroSArr i) empty) :pattern ((select zeroSArr i)))))
(assert (forall ((s BSeq)) (! (>= (len s) 0) :pattern ((len s)))))
(assert (= (len empty) 0))
(declare-fun sk!seq (BSeq BSeq) Int)
(assert (forall ((a BSeq) (b BSeq)) (! (or (SeqEq a b) (not (= (len a) (len b)))
   (and (<= 0 (sk!seq a b)) (< (sk!seq a b) (len a)) (not (= (at a (sk!seq a b)) (at b (sk!seq a b))))))
   :pattern ((SeqEq a b)))))
(assert (forall ((a BSeq) (b BSeq)) (! (=> (SeqEq a b) (= a b)) :pattern ((SeqEq a b)))))
(assert (forall ((a BSeq) (b BSeq)) (! (= (len (cat a b)) (+ (len a) (len b))) :pattern ((cat a b)))))
(assert (forall ((a BSeq) (b BSeq) (k Int)) (! (=> (and (<= 0 k) (< k (+ (len a) (len b)))) (= (at (cat a b) k) (ite (< k (len a)) (at a k) (at b (- k (len a)))))) :pattern ((at (cat a b) k)))))
(assert (forall ((s BSeq) (lo Int) (hi Int)) (! (=> (and (<= 0 lo) (<= lo hi) (<= hi (len s))) (= (len (sub s lo hi)) (- hi lo))) :pattern ((sub s lo hi)))))
(assert (forall ((s BSeq) (lo Int) (hi Int) (k Int)) (! (=> (and (<= 0 lo) (<= lo hi) (<= hi (len s)) (<= 0 k) (< k (- hi lo))) (= (at (sub s lo hi) k) (at s (+ lo k)))) :pattern ((at (sub s lo hi) k)))))
(assert (forall ((v Int)) (! (and (= (len (single v)) 1) (= (at (single v) 0) v)) :pattern ((single v)))))
(assert (forall ((n Int)) (! (=> (>= n 0) (= (len (zeros n)) n)) :pattern ((zeros n)))))
(assert (forall ((n Int) (k Int)) (! (=> (and (<= 0 k) (< k n)) (= (at (zeros n) k) 0)) :pattern ((at (zeros n) k)))))
(assert (forall ((a (Array Int Int)) (o Int) (n Int)) (! (=> (>= n 0) (= (len (view a o n)) n)) :pattern ((view a o n)))))
(assert (forall ((a (Array Int Int)) (o Int) (n Int) (k Int)) (! (=> (and (<= 0 k) (< k n)) (= (at (view a o n) k) (select a (+ o k)))) :pattern ((at (view a o n) k)))))
(assert (forall ((a BSeq)) (! (and (= (cat a empty) a) (= (cat empty a) a)) :pattern ((cat a empty)) :pattern ((cat empty a)))))
; (associativity of cat is deliberately not an axiom: it is a matching-loop generator; contracts
;  write concatenations left-nested, as the code builds them)
(assert (forall ((s BSeq)) (! (= (sub s 0 (len s)) s) :pattern ((sub s 0 (len s))))))
`

// ---------------------------------------------------------------------------
// solvers

type SolverResult struct {
	Status  string // unsat | sat | unknown | timeout | error
	Solver  string
	Seconds float64
	Output  string
	Model   map[string]string
}

type solverSpec struct {
	name string
	argv func(file string, timeoutS int) []string
}

var solverSpecs = []solverSpec{
	{"z3-new-5.1.0", func(f string, t int) []string {
		return []string{"z3-new", fmt.Sprintf("-T:%d", t), "smt.mbqi=false", f}
	}},
	{"z3-4.8.12", func(f string, t int) []string {
		return []string{"/usr/bin/z3", fmt.Sprintf("-T:%d", t), "smt.mbqi=false", f}
	}},
	{"cvc5-1.0", func(f string, t int) []string {
		return []string{"cvc5", fmt.Sprintf("--tlimit=%d", t*1000), "--produce-models", f}
	}},
}

func runOne(spec solverSpec, file string, timeoutS int) SolverResult {
	return runOneCtx(context.Background(), spec, file, timeoutS)
}

func runOneCtx(parent context.Context, spec solverSpec, file string, timeoutS int) SolverResult {
	ctx, cancel := context.WithTimeout(parent, time.Duration(timeoutS+2)*time.Second)
	defer cancel()
	argv := spec.argv(file, timeoutS)
	cmd := exec.CommandContext(ctx, argv[0], argv[1:]...)
	var out bytes.Buffer
	cmd.Stdout = &out
	cmd.Stderr = &out
	t0 := time.Now()
	_ = cmd.Run()
	res := SolverResult{Solver: spec.name, Seconds: time.Since(t0).Seconds(), Output: out.String()}
	first := strings.TrimSpace(strings.SplitN(out.String(), "\n", 2)[0])
	switch first {
	case "unsat", "sat", "unknown":
		res.Status = first
	case "timeout":
		res.Status = "timeout"
	default:
		if ctx.Err() != nil || strings.Contains(out.String(), "timeout") || strings.Contains(out.String(), "interrupted") {
			res.Status = "timeout"
		} else {
			res.Status = "error"
		}
	}
	return res
}

// Solve races the portfolio on one query. all=true runs every solver and
// reports disagreement as an error.
func Solve(query string, getvals []string, timeoutS int, all bool, dir, name string) SolverResult {
	file := fmt.Sprintf("%s/%s.smt2", dir, sanitize(name))
	gv := ""
	if len(getvals) > 0 {
		gv = "(get-value (" + strings.Join(getvals, " ") + "))\n"
	}
	body := "(set-option :produce-models true)\n(set-logic ALL)\n" + query + "(check-sat)\n" + gv
	if err := os.WriteFile(file, []byte(body), 0o644); err != nil {
		return SolverResult{Status: "error", Output: err.Error()}
	}
	if !all {
		// fast path: the first solver alone with a short budget, then a race of all three
		quick := 2
		if timeoutS < quick {
			quick = timeoutS
		}
		r := runOne(solverSpecs[0], file, quick)
		if r.Status == "unsat" || r.Status == "sat" {
			if r.Status == "sat" {
				r.Model = parseModel(r.Output)
			}
			return r
		}
		spent := r.Seconds
		type res struct{ r SolverResult }
		ch := make(chan SolverResult, len(solverSpecs))
		ctx, cancel := context.WithCancel(context.Background())
		defer cancel()
		for _, sp := range solverSpecs {
			go func(sp solverSpec) { ch <- runOneCtx(ctx, sp, file, timeoutS) }(sp)
		}
		var last SolverResult
		for range solverSpecs {
			r := <-ch
			if r.Status == "unsat" || r.Status == "sat" {
				r.Seconds += spent
				if r.Status == "sat" {
					r.Model = parseModel(r.Output)
				}
				return r
			}
			if last.Status == "" || r.Status == "unknown" {
				last = r
			}
		}
		last.Seconds += spent
		return last
	}
	var wg sync.WaitGroup
	rs := make([]SolverResult, len(solverSpecs))
	for i, sp := range solverSpecs {
		wg.Add(1)
		go func(i int, sp solverSpec) {
			defer wg.Done()
			rs[i] = runOne(sp, file, timeoutS)
		}(i, sp)
	}
	wg.Wait()
	var dec *SolverResult
	names := []string{}
	tot := 0.0
	for i := range rs {
		tot += rs[i].Seconds
		if rs[i].Status == "unsat" || rs[i].Status == "sat" {
			if dec != nil && dec.Status != rs[i].Status {
				return SolverResult{Status: "error", Solver: "portfolio", Output: "solver disagreement: " + dec.Solver + "=" + dec.Status + " " + rs[i].Solver + "=" + rs[i].Status}
			}
			if dec == nil {
				dec = &rs[i]
			}
			names = append(names, rs[i].Solver)
		}
	}
	if dec == nil {
		r := rs[0]
		r.Seconds = tot
		return r
	}
	r := *dec
	r.Solver = strings.Join(names, "+")
	r.Seconds = tot
	if r.Status == "sat" {
		r.Model = parseModel(r.Output)
	}
	return r
}

func sanitize(s string) string {
	r := strings.NewReplacer("/", "_", ":", "_", "#", "_", "@", "_", "$", "_", "(", "", ")", "", "*", "", " ", "_", "[", "_", "]", "_", "<", "", ">", "", "=", "-")
	return r.Replace(s)
}

// parseModel reads the (get-value ...) answer: ((name value) ...).
func parseModel(out string) map[string]string {
	m := map[string]string{}
	i := strings.Index(out, "((")
	if i < 0 {
		return m
	}
	s := out[i+1:]
	// tokens: sequence of (name value) with balanced parens
	depth := 0
	start := -1
	for j := 0; j < len(s); j++ {
		switch s[j] {
		case '(':
			if depth == 0 {
				start = j
			}
			depth++
		case ')':
			depth--
			if depth == 0 && start >= 0 {
				item := s[start+1 : j]
				sp := strings.IndexAny(item, " \n\t")
				if sp > 0 {
					m[strings.TrimSpace(item[:sp])] = strings.Join(strings.Fields(item[sp+1:]), " ")
				}
				start = -1
			}
			if depth < 0 {
				return m
			}
		}
	}
	return m
}
