package main

// Contract files: comment-only Go files (//go:build verif) whose "//@" lines
// carry Gobra-flavoured contracts keyed by function name and loop ordinal.

import (
	"fmt"
	"math/big"
	"os"
	"path/filepath"
	"strconv"
	"strings"
	"unicode"
)

type Clause struct {
	Safe  bool // loop invariant that holds without the domain hypothesis
	Label string
	E     Expr
	Src   string
	Pos   string
}

type SplitSpec struct {
	E      Expr
	Lo, Hi int64
	Src    string
	Kind   string // "" = all obligations; otherwise only obligations of this kind (e.g. "post")
}

type LoopContract struct {
	Inv       []Clause
	Decreases *Clause
	Bound     int64 // 0 = none
	Splits    []SplitSpec
}

// AssertAt: a cut assertion at the n-th phi (in block order) that merges the source variable Local.
type AssertAt struct {
	Local string
	N     int
	C     Clause
	Cut   bool // "cut": hypotheses contributed by earlier calls are forgotten after this point
}

type LetDef struct {
	Name string
	E    Expr
}

type FuncContract struct {
	Name     string
	Params   []string // optional renaming
	Results  []string
	Lets     []LetDef
	Requires []Clause
	Domain   []Clause // domain of the functional clauses: hypothesis of post/invariant/assert obligations only,
	// never assumed for safety or termination obligations and never demanded from callers
	Ensures  []Clause
	Modifies []Expr
	Splits   []SplitSpec
	Loops    map[int]*LoopContract
	Asserts  []AssertAt
	Trusted  bool
	Reveal   map[string]bool
	Labels   *LabelDecl
	PureFn   map[string]bool // function-typed params treated as deterministic
	DynTypes map[string][]string
	File     string
	Line     int
	Used     bool
}

type Macro struct {
	Name   string
	Params []string
	Body   Expr
}

type Lemma struct {
	Name   string
	C      Clause
	Reveal map[string]bool
}

type ContractSet struct {
	Funcs  map[string]*FuncContract
	Macros map[string]*Macro
	Lemmas []*Lemma
}

var clauseKeywords = map[string]bool{"domain": true, "cut": true, "label": true, "requires": true, "ensures": true, "let": true, "split": true, "modifies": true,
	"loop": true, "assert": true, "trusted": true, "pure": true, "dyntypes": true}

func LoadContracts(files []string) (*ContractSet, error) {
	cs := &ContractSet{Funcs: map[string]*FuncContract{}, Macros: map[string]*Macro{}}
	for _, f := range files {
		data, err := os.ReadFile(f)
		if err != nil {
			return nil, err
		}
		var cur *FuncContract
		var lines []struct {
			s  string
			ln int
		}
		for i, raw := range strings.Split(string(data), "\n") {
			s := strings.TrimSpace(raw)
			if !strings.HasPrefix(s, "//@") {
				continue
			}
			s = strings.TrimSpace(s[3:])
			if s == "" {
				continue
			}
			if strings.HasPrefix(s, "|") && len(lines) > 0 {
				lines[len(lines)-1].s += " " + strings.TrimSpace(s[1:])
				continue
			}
			lines = append(lines, struct {
				s  string
				ln int
			}{s, i + 1})
		}
		for _, l := range lines {
			pos := fmt.Sprintf("%s:%d", filepath.Base(f), l.ln)
			kw, rest := splitWord(l.s)
			if kw == "macro" {
				// macro name(p1, p2) = expr
				i := strings.Index(rest, "(")
				j := strings.Index(rest, ")")
				k := strings.Index(rest, "=")
				if i < 0 || j < i || k < j {
					return nil, fmt.Errorf("%s: bad macro", pos)
				}
				m := &Macro{Name: strings.TrimSpace(rest[:i])}
				for _, p := range strings.Split(rest[i+1:j], ",") {
					if p = strings.TrimSpace(p); p != "" {
						m.Params = append(m.Params, p)
					}
				}
				e, err := ParseExpr(rest[k+1:])
				if err != nil {
					return nil, fmt.Errorf("%s: %v", pos, err)
				}
				m.Body = e
				cs.Macros[m.Name] = m
				cur = nil
				continue
			}
			if kw == "lemma" {
				// lemma name [reveal a b] : expr
				i := strings.Index(rest, ":")
				if i < 0 {
					return nil, fmt.Errorf("%s: lemma needs 'name : expr'", pos)
				}
				hdr := strings.Fields(rest[:i])
				lm := &Lemma{Name: hdr[0], Reveal: map[string]bool{}}
				for _, w := range hdr[1:] {
					if w != "reveal" {
						lm.Reveal[w] = true
					}
				}
				e, err := ParseExpr(rest[i+1:])
				if err != nil {
					return nil, fmt.Errorf("%s: %v", pos, err)
				}
				lm.C = Clause{Label: lm.Name, E: e, Src: strings.TrimSpace(rest[i+1:]), Pos: pos}
				cs.Lemmas = append(cs.Lemmas, lm)
				cur = nil
				continue
			}
			if kw == "func" {
				fc, err := parseFuncHeader(rest)
				if err != nil {
					return nil, fmt.Errorf("%s: %v", pos, err)
				}
				fc.File, fc.Line = f, l.ln
				if _, dup := cs.Funcs[fc.Name]; dup {
					return nil, fmt.Errorf("%s: duplicate contract for %s", pos, fc.Name)
				}
				cs.Funcs[fc.Name] = fc
				cur = fc
				continue
			}
			if cur == nil {
				return nil, fmt.Errorf("%s: clause outside func: %s", pos, l.s)
			}
			if err := parseClause(cur, kw, rest, pos); err != nil {
				return nil, fmt.Errorf("%s: %v", pos, err)
			}
		}
	}
	return cs, nil
}

func splitWord(s string) (string, string) {
	s = strings.TrimSpace(s)
	i := 0
	for i < len(s) && (unicode.IsLetter(rune(s[i])) || s[i] == '_') {
		i++
	}
	return s[:i], strings.TrimSpace(s[i:])
}

func parseFuncHeader(rest string) (*FuncContract, error) {
	fc := &FuncContract{Loops: map[int]*LoopContract{}, PureFn: map[string]bool{}, DynTypes: map[string][]string{}}
	// name may be like (OCRAInput).Validate or shortDigit or f$1, followed by optional (params) (results)
	rest = strings.TrimSpace(rest)
	i := 0
	for i < len(rest) && rest[i] != ' ' {
		if rest[i] == '(' {
			if i == 0 || rest[i-1] == '.' {
				j := strings.Index(rest[i:], ")")
				if j < 0 {
					return nil, fmt.Errorf("unbalanced receiver in %q", rest)
				}
				i += j + 1
				continue
			}
			break
		}
		i++
	}
	fc.Name = rest[:i]
	rest = strings.TrimSpace(rest[i:])
	grab := func() ([]string, bool) {
		if !strings.HasPrefix(rest, "(") {
			return nil, false
		}
		j := strings.Index(rest, ")")
		in := rest[1:j]
		rest = strings.TrimSpace(rest[j+1:])
		var out []string
		for _, p := range strings.Split(in, ",") {
			p = strings.TrimSpace(p)
			if p != "" {
				out = append(out, p)
			}
		}
		return out, true
	}
	if ps, ok := grab(); ok {
		fc.Params = ps
		if rs, ok := grab(); ok {
			fc.Results = rs
		}
	}
	if rest != "" {
		return nil, fmt.Errorf("trailing text in func header: %q", rest)
	}
	return fc, nil
}

func parseLabel(rest string) (string, string) {
	if strings.HasPrefix(rest, "[") {
		j := strings.Index(rest, "]")
		return rest[1:j], strings.TrimSpace(rest[j+1:])
	}
	return "", rest
}

func parseSplit(rest string) (SplitSpec, error) {
	// <expr> in a..b
	i := strings.LastIndex(rest, " in ")
	if i < 0 {
		return SplitSpec{}, fmt.Errorf("split needs 'in a..b'")
	}
	e, err := ParseExpr(rest[:i])
	if err != nil {
		return SplitSpec{}, err
	}
	rng := strings.TrimSpace(rest[i+4:])
	parts := strings.Split(rng, "..")
	if len(parts) != 2 {
		return SplitSpec{}, fmt.Errorf("bad range %q", rng)
	}
	lo, err1 := strconv.ParseInt(strings.TrimSpace(parts[0]), 10, 64)
	hi, err2 := strconv.ParseInt(strings.TrimSpace(parts[1]), 10, 64)
	if err1 != nil || err2 != nil {
		return SplitSpec{}, fmt.Errorf("bad range %q", rng)
	}
	return SplitSpec{E: e, Lo: lo, Hi: hi, Src: rest}, nil
}

func parseClause(fc *FuncContract, kw, rest, pos string) error {
	switch kw {
	case "requires", "ensures", "domain":
		label, body := parseLabel(rest)
		e, err := ParseExpr(body)
		if err != nil {
			return err
		}
		c := Clause{Label: label, E: e, Src: body, Pos: pos}
		if kw == "requires" {
			fc.Requires = append(fc.Requires, c)
		} else if kw == "domain" {
			fc.Domain = append(fc.Domain, c)
		} else {
			if c.Label == "" {
				c.Label = fmt.Sprintf("e%d", len(fc.Ensures)+1)
			}
			fc.Ensures = append(fc.Ensures, c)
		}
	case "let":
		i := strings.Index(rest, "=")
		if i < 0 {
			return fmt.Errorf("let needs =")
		}
		e, err := ParseExpr(rest[i+1:])
		if err != nil {
			return err
		}
		fc.Lets = append(fc.Lets, LetDef{Name: strings.TrimSpace(rest[:i]), E: e})
	case "split":
		kind, body := parseLabel(rest)
		sp, err := parseSplit(body)
		if err != nil {
			return err
		}
		sp.Kind = kind
		fc.Splits = append(fc.Splits, sp)
	case "modifies":
		for _, p := range strings.Split(rest, ",") {
			e, err := ParseExpr(p)
			if err != nil {
				return err
			}
			fc.Modifies = append(fc.Modifies, e)
		}
	case "trusted":
		fc.Trusted = true
	case "reveal":
		if fc.Reveal == nil {
			fc.Reveal = map[string]bool{}
		}
		for _, n := range strings.Fields(rest) {
			fc.Reveal[n] = true
		}
	case "label":
		// label <param|result> mac|key|usr|clean ...
		f := strings.Fields(rest)
		if len(f) < 2 {
			return fmt.Errorf("label needs a name and labels")
		}
		if fc.Labels == nil {
			fc.Labels = &LabelDecl{Params: map[string]label{}, Results: map[int]label{}}
		}
		var l label
		for _, w := range f[1:] {
			switch w {
			case "mac":
				l.mac = true
			case "key":
				l.key = true
			case "usr":
				l.usr = true
			case "clean":
			default:
				return fmt.Errorf("unknown label %q", w)
			}
		}
		if f[0] == "result" {
			fc.Labels.Results[0] = l
			fc.Labels.ResultsDeclared = true
		} else {
			fc.Labels.Params[f[0]] = l
		}
	case "pure":
		for _, p := range strings.Fields(rest) {
			fc.PureFn[p] = true
		}
	case "dyntypes":
		// dyntypes s in T1, T2
		i := strings.Index(rest, " in ")
		if i < 0 {
			return fmt.Errorf("dyntypes needs in")
		}
		var ts []string
		for _, p := range strings.Split(rest[i+4:], ",") {
			ts = append(ts, strings.TrimSpace(p))
		}
		fc.DynTypes[strings.TrimSpace(rest[:i])] = ts
	case "assert", "cut":
		// assert <local> <n> : expr     (at the n-th merge point of source variable <local>)
		i := strings.Index(rest, ":")
		if i < 0 {
			return fmt.Errorf("assert needs '<local> <n> : expr'")
		}
		f := strings.Fields(rest[:i])
		if len(f) != 2 {
			return fmt.Errorf("assert needs '<local> <n> : expr'")
		}
		n, err := strconv.Atoi(f[1])
		if err != nil {
			return err
		}
		e, err := ParseExpr(rest[i+1:])
		if err != nil {
			return err
		}
		fc.Asserts = append(fc.Asserts, AssertAt{Local: f[0], N: n, Cut: kw == "cut", C: Clause{Label: f[0] + "." + f[1], E: e, Src: strings.TrimSpace(rest[i+1:]), Pos: pos}})
	case "loop":
		f := strings.Fields(rest)
		if len(f) < 2 {
			return fmt.Errorf("loop needs ordinal and kind")
		}
		n, err := strconv.Atoi(f[0])
		if err != nil {
			return err
		}
		lc := fc.Loops[n]
		if lc == nil {
			lc = &LoopContract{}
			fc.Loops[n] = lc
		}
		body := strings.TrimSpace(strings.TrimPrefix(strings.TrimSpace(strings.TrimPrefix(rest, f[0])), f[1]))
		switch f[1] {
		case "invariant", "invariant[safe]":
			e, err := ParseExpr(body)
			if err != nil {
				return err
			}
			lc.Inv = append(lc.Inv, Clause{Label: fmt.Sprintf("%d", len(lc.Inv)+1), E: e, Src: body, Pos: pos, Safe: f[1] == "invariant[safe]"})
		case "decreases":
			e, err := ParseExpr(body)
			if err != nil {
				return err
			}
			lc.Decreases = &Clause{E: e, Src: body, Pos: pos}
		case "bound":
			b, err := strconv.ParseInt(body, 10, 64)
			if err != nil {
				return err
			}
			lc.Bound = b
		case "split":
			sp, err := parseSplit(body)
			if err != nil {
				return err
			}
			lc.Splits = append(lc.Splits, sp)
		default:
			return fmt.Errorf("unknown loop clause %q", f[1])
		}
	default:
		return fmt.Errorf("unknown clause %q", kw)
	}
	return nil
}

// ---------------------------------------------------------------------------
// expressions

type Expr interface{}
type EInt struct{ V *big.Int }
type EStr struct{ S string }
type EBool struct{ V bool }
type ENil struct{}
type EIdent struct{ Name string }
type EUn struct {
	Op string
	X  Expr
}
type EBin struct {
	Op   string
	X, Y Expr
}
type ECond struct{ C, A, B Expr }
type ECall struct {
	Fn   string
	Args []Expr
}
type EIndex struct{ X, I Expr }
type ESliceE struct{ X, Lo, Hi Expr }
type ESel struct {
	X    Expr
	Name string
}
type EQuant struct {
	All      bool
	Var      string
	VarSeq   bool // bound variable ranges over sequences
	Lo, Hi   Expr // literal range (inclusive) when Bounded
	Bounded  bool
	Body     Expr
}
type ELet struct {
	Name string
	E    Expr
	Body Expr
}

type tok struct {
	k string // id num str op eof
	s string
}

type parser struct {
	toks []tok
	p    int
}

func lex(s string) ([]tok, error) {
	var ts []tok
	i := 0
	for i < len(s) {
		c := s[i]
		switch {
		case c == ' ' || c == '\t':
			i++
		case unicode.IsLetter(rune(c)) || c == '_':
			j := i
			for j < len(s) && (unicode.IsLetter(rune(s[j])) || unicode.IsDigit(rune(s[j])) || s[j] == '_' || s[j] == '$') {
				j++
			}
			ts = append(ts, tok{"id", s[i:j]})
			i = j
		case unicode.IsDigit(rune(c)):
			j := i
			for j < len(s) && (unicode.IsDigit(rune(s[j])) || s[j] == 'x' || (s[j] >= 'a' && s[j] <= 'f') || (s[j] >= 'A' && s[j] <= 'F') || s[j] == '_') {
				if s[j] == '.' {
					break
				}
				j++
			}
			ts = append(ts, tok{"num", s[i:j]})
			i = j
		case c == '"':
			j := i + 1
			for j < len(s) && s[j] != '"' {
				if s[j] == '\\' {
					j++
				}
				j++
			}
			if j >= len(s) {
				return nil, fmt.Errorf("unterminated string")
			}
			str, err := strconv.Unquote(s[i : j+1])
			if err != nil {
				return nil, err
			}
			ts = append(ts, tok{"str", str})
			i = j + 1
		case c == '\'':
			if i+2 < len(s) && s[i+2] == '\'' {
				ts = append(ts, tok{"num", strconv.Itoa(int(s[i+1]))})
				i += 3
			} else {
				return nil, fmt.Errorf("bad char literal")
			}
		default:
			ops := []string{"<==>", "==>", "::", "..", "==", "!=", "<=", ">=", "&&", "||", "<<", "+", "-", "*", "/", "%", "<", ">", "!", "(", ")", "[", "]", ",", "?", ":", ".", "="}
			found := false
			for _, op := range ops {
				if strings.HasPrefix(s[i:], op) {
					ts = append(ts, tok{"op", op})
					i += len(op)
					found = true
					break
				}
			}
			if !found {
				return nil, fmt.Errorf("unexpected character %q in %q", c, s)
			}
		}
	}
	ts = append(ts, tok{"eof", ""})
	return ts, nil
}

func ParseExpr(s string) (Expr, error) {
	ts, err := lex(strings.TrimSpace(s))
	if err != nil {
		return nil, err
	}
	p := &parser{toks: ts}
	e, err := p.expr(0)
	if err != nil {
		return nil, fmt.Errorf("%v in %q", err, s)
	}
	if p.peek().k != "eof" {
		return nil, fmt.Errorf("unexpected %q in %q", p.peek().s, s)
	}
	return e, nil
}

func (p *parser) peek() tok { return p.toks[p.p] }
func (p *parser) next() tok { t := p.toks[p.p]; p.p++; return t }
func (p *parser) isOp(s string) bool {
	return p.peek().k == "op" && p.peek().s == s
}
func (p *parser) expect(s string) error {
	if !p.isOp(s) {
		return fmt.Errorf("expected %q, got %q", s, p.peek().s)
	}
	p.p++
	return nil
}

var binPrec = map[string]int{"<==>": 1, "==>": 2, "||": 4, "&&": 5, "==": 6, "!=": 6, "<": 6, "<=": 6, ">": 6, ">=": 6, "+": 7, "-": 7, "*": 8, "/": 8, "%": 8, "<<": 8}

func (p *parser) expr(minPrec int) (Expr, error) {
	lhs, err := p.unary()
	if err != nil {
		return nil, err
	}
	for {
		t := p.peek()
		if t.k != "op" {
			break
		}
		if t.s == "?" && minPrec <= 3 {
			p.next()
			a, err := p.expr(3)
			if err != nil {
				return nil, err
			}
			if err := p.expect(":"); err != nil {
				return nil, err
			}
			b, err := p.expr(3)
			if err != nil {
				return nil, err
			}
			lhs = ECond{lhs, a, b}
			continue
		}
		prec, ok := binPrec[t.s]
		if !ok || prec < minPrec {
			break
		}
		p.next()
		nextMin := prec + 1
		if t.s == "==>" {
			nextMin = prec // right assoc
		}
		rhs, err := p.expr(nextMin)
		if err != nil {
			return nil, err
		}
		lhs = EBin{t.s, lhs, rhs}
	}
	return lhs, nil
}

func (p *parser) unary() (Expr, error) {
	t := p.peek()
	if t.k == "op" && (t.s == "!" || t.s == "-") {
		p.next()
		x, err := p.unary()
		if err != nil {
			return nil, err
		}
		return EUn{t.s, x}, nil
	}
	return p.postfix()
}

func (p *parser) postfix() (Expr, error) {
	x, err := p.primary()
	if err != nil {
		return nil, err
	}
	for {
		switch {
		case p.isOp("."):
			p.next()
			n := p.next()
			if n.k != "id" {
				return nil, fmt.Errorf("expected field name")
			}
			x = ESel{x, n.s}
		case p.isOp("["):
			p.next()
			var lo Expr
			if !p.isOp(":") {
				lo, err = p.expr(0)
				if err != nil {
					return nil, err
				}
			}
			if p.isOp(":") {
				p.next()
				var hi Expr
				if !p.isOp("]") {
					hi, err = p.expr(0)
					if err != nil {
						return nil, err
					}
				}
				if err := p.expect("]"); err != nil {
					return nil, err
				}
				x = ESliceE{x, lo, hi}
			} else {
				if err := p.expect("]"); err != nil {
					return nil, err
				}
				x = EIndex{x, lo}
			}
		default:
			return x, nil
		}
	}
}

func (p *parser) primary() (Expr, error) {
	t := p.next()
	switch t.k {
	case "num":
		v, ok := new(big.Int).SetString(strings.ReplaceAll(t.s, "_", ""), 0)
		if !ok {
			return nil, fmt.Errorf("bad number %q", t.s)
		}
		return EInt{v}, nil
	case "str":
		return EStr{t.s}, nil
	case "id":
		switch t.s {
		case "true":
			return EBool{true}, nil
		case "false":
			return EBool{false}, nil
		case "nil":
			return ENil{}, nil
		case "forall", "exists":
			v := p.next()
			if v.k != "id" {
				return nil, fmt.Errorf("expected bound variable")
			}
			q := EQuant{All: t.s == "forall", Var: v.s}
			if p.isOp(":") {
				p.next()
				st := p.next()
				if st.s == "seq" {
					q.VarSeq = true
				}
			}
			if p.peek().k == "id" && p.peek().s == "in" {
				p.next()
				lo, err := p.expr(7)
				if err != nil {
					return nil, err
				}
				if err := p.expect(".."); err != nil {
					return nil, err
				}
				hi, err := p.expr(7)
				if err != nil {
					return nil, err
				}
				q.Lo, q.Hi, q.Bounded = lo, hi, true
			}
			if err := p.expect("::"); err != nil {
				return nil, err
			}
			body, err := p.expr(0)
			if err != nil {
				return nil, err
			}
			q.Body = body
			return q, nil
		case "let":
			v := p.next()
			if err := p.expect("="); err != nil {
				return nil, err
			}
			e, err := p.expr(3)
			if err != nil {
				return nil, err
			}
			if nx := p.next(); nx.k != "id" || nx.s != "in" {
				return nil, fmt.Errorf("expected 'in' in let")
			}
			body, err := p.expr(0)
			if err != nil {
				return nil, err
			}
			return ELet{v.s, e, body}, nil
		}
		if p.isOp("(") {
			p.next()
			var args []Expr
			for !p.isOp(")") {
				a, err := p.expr(0)
				if err != nil {
					return nil, err
				}
				args = append(args, a)
				if p.isOp(",") {
					p.next()
				}
			}
			p.next()
			return ECall{t.s, args}, nil
		}
		return EIdent{t.s}, nil
	case "op":
		if t.s == "(" {
			e, err := p.expr(0)
			if err != nil {
				return nil, err
			}
			if err := p.expect(")"); err != nil {
				return nil, err
			}
			return e, nil
		}
		if t.s == "*" { // *p deref
			x, err := p.unary()
			if err != nil {
				return nil, err
			}
			return EUn{"*", x}, nil
		}
	}
	return nil, fmt.Errorf("unexpected token %q", t.s)
}
