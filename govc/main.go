package main

// govc: verification-condition generator and checker for the contracts of ja7ad/otp.

import (
	"runtime/debug"
	"encoding/hex"
	"encoding/json"
	"flag"
	"fmt"
	"os"
	"path/filepath"
	"regexp"
	"sort"
	"strings"
	"sync"
	"time"

	"golang.org/x/tools/go/ssa"
	"golang.org/x/tools/go/ssa/ssautil"
)

type OblOut struct {
	Name    string            `json:"name"`
	Kind    string            `json:"kind"`
	Func    string            `json:"func"`
	Unit    string            `json:"unit"`
	Status  string            `json:"status"`
	Solver  string            `json:"solver"`
	Seconds float64           `json:"seconds"`
	Pos     string            `json:"pos"`
	Src     string            `json:"src"`
	Model   map[string]string `json:"model,omitempty"`
	Candidate map[string]string `json:"candidate_model,omitempty"`
	Inputs    map[string]string `json:"inputs,omitempty"`
	Output  string            `json:"output,omitempty"`
	SMTSize int               `json:"smt_bytes"`
	Expect  string            `json:"expect,omitempty"`
	File    string            `json:"file,omitempty"`
}

type FuncOut struct {
	Name         string   `json:"name"`
	Unit         string   `json:"unit"`
	HasContract  bool     `json:"has_contract"`
	Trusted      bool     `json:"trusted"`
	Obligations  int      `json:"obligations"`
	Abstractions []string `json:"abstractions,omitempty"`
	Warnings     []string `json:"contract_warnings,omitempty"`
	Models       []string `json:"models,omitempty"`
	Loops        int      `json:"loops"`
}

type Output struct {
	Unit        string            `json:"unit"`
	Errors      []string          `json:"errors"`
	Funcs       []FuncOut         `json:"functions"`
	Obligations []OblOut          `json:"obligations"`
	ModelDescs  map[string]string `json:"model_descriptions"`
	WallS       float64           `json:"wall_s"`
	LoadS       float64           `json:"load_s"`
	Notes       []string          `json:"notes,omitempty"`
}

func main() {
	repo := flag.String("repo", "/repo", "repository root")
	unit := flag.String("unit", "lib", "lib | api | wasm")
	funcs := flag.String("funcs", ".*", "regexp selecting functions (qualified name pkg.Func)")
	kinds := flag.String("kinds", ".*", "regexp selecting obligation kinds/names")
	skip := flag.String("skip", "^$", "regexp of functions to leave out")
	out := flag.String("out", "", "result JSON file")
	work := flag.String("work", "", "directory for SMT files")
	timeout := flag.Int("timeout", 10, "per-solver timeout in seconds")
	all := flag.Bool("all", false, "run all solvers on every obligation (thorough)")
	jobs := flag.Int("jobs", 16, "parallel solver processes")
	specs := flag.String("specs", "/verif/contracts/specs.smt2", "spec library")
	list := flag.Bool("list", false, "list obligations without solving")
	keep := flag.Bool("keep", false, "keep SMT files of discharged obligations")
	flag.Parse()

	t0 := time.Now()
	u, err := loadUnitByName(*unit, *repo, *specs)
	if err != nil {
		fmt.Fprintln(os.Stderr, "govc: load error:", err)
		os.Exit(2)
	}
	loadS := time.Since(t0).Seconds()
	fre := regexp.MustCompile(*funcs)
	skre := regexp.MustCompile(*skip)
	kre := regexp.MustCompile(*kinds)

	if *work == "" {
		d, _ := os.MkdirTemp("", "govc-work-")
		*work = d
		defer os.RemoveAll(d)
	} else {
		os.MkdirAll(*work, 0o755)
	}

	var fns []*ssa.Function
	var res0 []string
	for fn := range ssautil.AllFunctions(u.Prog) {
		if fn.Synthetic != "" && !strings.Contains(fn.Synthetic, "package initializer") {
			continue
		}
		if !u.internal(fn) || len(fn.Blocks) == 0 {
			continue
		}
		if u.unitPkg(fn) == nil {
			continue
		}
		if fre.MatchString(u.contractKey(fn)) && !skre.MatchString(u.contractKey(fn)) {
			if u.coveredByInlining(fn) {
				// an unexported, contract-less, loop-free helper whose every call site is in a function verified here:
				// its body is executed at those call sites (inl. obligations), in the context it actually runs in;
				// a stand-alone run under precondition true would demand more than any property states
				res0 = append(res0, u.contractKey(fn))
				continue
			}
			fns = append(fns, fn)
		}
	}
	sort.Slice(fns, func(i, j int) bool { return u.contractKey(fns[i]) < u.contractKey(fns[j]) })

	res := Output{Unit: u.Name, ModelDescs: map[string]string{}, LoadS: loadS}
	sort.Strings(res0)
	for _, n := range res0 {
		res.Notes = append(res.Notes, "helper "+n+" is verified at its call sites (inlined), not stand-alone")
	}
	var allObls []*Obligation
	for _, fn := range fns {
		fc := u.contractOf(fn)
		fx := &FX{u: u, fn: fn, fc: fc, name: u.contractKey(fn), usedModels: map[string]bool{}, mapOrigin: map[string]*cmap{}, pureDecl: map[string]bool{}}
		if fc != nil {
			fc.Used = true
		}
		fo := FuncOut{Name: fx.name, Unit: u.Name, HasContract: fc != nil}
		if fc != nil && fc.Trusted {
			fo.Trusted = true
			res.Funcs = append(res.Funcs, fo)
			continue
		}
		func() {
			defer func() {
				if r := recover(); r != nil {
					u.errors = append(u.errors, fmt.Sprintf("%s: engine panic: %v", fx.name, r))
					if os.Getenv("GOVC_DEBUG") != "" {
						debug.PrintStack()
					}
				}
			}()
			fx.computeLabels()
			fx.run()
			fx.vacuity()
		}()
		fo.Abstractions = fx.abstractions
		fo.Warnings = fx.warnings
		for _, w := range fx.warnings {
			fmt.Printf("CONTRACT-WARNING %s: %s\n", fx.name, w)
		}
		fo.Loops = len(fx.loops)
		for m := range fx.usedModels {
			fo.Models = append(fo.Models, m)
			res.ModelDescs[m] = u.models[m].Desc
		}
		sort.Strings(fo.Models)
		n := 0
		for _, o := range fx.obls {
			if kindSelected(kre, o.Name) {
				allObls = append(allObls, o)
				n++
			}
		}
		fo.Obligations = n
		res.Funcs = append(res.Funcs, fo)
	}
	if u.Name == "lib" || u.Name == "api" {
		tos, tfo := u.tableObligations(fre, kre)
		allObls = append(allObls, tos...)
		if len(tos) > 0 {
			res.Funcs = append(res.Funcs, tfo...)
		}
	}
	if u.Name == "wasm" {
		tos, tfo := u.jsTableObligations(*repo, fre, kre)
		allObls = append(allObls, tos...)
		if len(tos) > 0 {
			res.Funcs = append(res.Funcs, tfo...)
		}
	}
	// file-level lemmas: closed formulas over the spec library, proved once
	if u.Name == "lib" {
		for _, lm := range u.Contracts.Lemmas {
			name := "otp.lemma$" + lm.Name
			if !fre.MatchString(name) {
				continue
			}
			fx := &FX{u: u, name: name, usedModels: map[string]bool{}, mapOrigin: map[string]*cmap{}, pureDecl: map[string]bool{}, fc: &FuncContract{Reveal: lm.Reveal}}
			fx.initMaps()
			fx.entry = &State{PC: tTrue, H: T{"H!none", SHeap}, Hs: T{"Hs!none", SSHeap}, Alloc: T{"alloc!none", SSet}, Priv: map[*ssa.Alloc][2]T{}}
			env := &Env{fx: fx, st: fx.entry, old: fx.entry, bound: map[string]Val{}, calleeMode: true, calleeParams: map[string]Val{}}
			goal := fx.goalBool(env, lm.C.E)
			o := &Obligation{Name: fmt.Sprintf("%s.%s/lemma:%s", u.Name, name, lm.Name), Kind: "lemma", Func: name, Unit: u.Name, Prefix: len(fx.lines), Guard: tTrue, Goal: goal, Extra: tTrue, Src: lm.C.Src, Pos: lm.C.Pos, fx: fx}
			if kre.MatchString(o.Name) {
				allObls = append(allObls, o)
			}
			res.Funcs = append(res.Funcs, FuncOut{Name: name, Unit: u.Name, HasContract: true, Obligations: 1})
		}
	}
	// contracts naming functions that do not exist
	for name, fc := range u.Contracts.Funcs {
		if !fc.Used && u.contractBelongs(name) && !u.functionExists(name) {
			fmt.Printf("CONTRACT-WARNING %s: contract (%s:%d) names no function of unit %s\n", name, filepath.Base(fc.File), fc.Line, u.Name)
		}
	}

	if *list {
		for _, o := range allObls {
			fmt.Println(o.Name)
		}
		return
	}

	// solve
	sem := make(chan struct{}, *jobs)
	var wg sync.WaitGroup
	outs := make([]OblOut, len(allObls))
	for i, o := range allObls {
		wg.Add(1)
		go func(i int, o *Obligation) {
			defer wg.Done()
			oo := OblOut{Name: o.Name, Kind: o.Kind, Func: o.Func, Unit: o.Unit, Pos: o.Pos, Src: o.Src, Expect: o.Expected}
			if o.Trivial {
				oo.Status = "unsat"
				oo.Solver = "ground-eval"
				if o.Goal.S != "true" {
					oo.Status = "sat"
				}
				outs[i] = oo
				return
			}
			sem <- struct{}{}
			defer func() { <-sem }()
			for _, it := range o.fx.inputs {
				o.GetVals = append(o.GetVals, it.Term)
			}
			q := o.fx.query(o)
			oo.SMTSize = len(q)
			var r SolverResult
			if o.Expected == "sat" {
				r = solveMBQI(q, nil, 2, *work, o.Name) // cover query: anything but unsat passes
				if r.Status != "unsat" && r.Status != "sat" {
					r.Status = "unknown"
				}
			} else {
				r = Solve(q, o.GetVals, *timeout, *all, *work, o.Name)
			}
			if o.Expected == "" && r.Status != "unsat" && r.Status != "sat" {
				// second chance: cone-of-influence slice (fewer hypotheses: a proof of the slice is a
				// proof of the obligation; a model of it is a candidate counterexample), with
				// model-based quantifier instantiation switched on
				q2 := o.fx.queryMode(o, true)
				r2 := solveMBQI(q2, o.GetVals, *timeout, *work, o.Name)
				if r2.Status == "sat" {
					r.Status, r.Model, r.Output, r.Solver = "sat", r2.Model, r2.Output, r2.Solver+"(sliced)"
				} else if r2.Status == "unsat" {
					r.Status, r.Solver = "unsat", r2.Solver+"(sliced)"
				}
				r.Seconds += r2.Seconds
				if r.Status != "sat" && r.Status != "unsat" {
					// model hunt: the slice with every quantified hypothesis removed is quantifier-free;
					// a model is only a candidate input and must be confirmed by replay on the real code
					r3 := solveMBQI(stripQuantified(q2), o.GetVals, *timeout, *work, o.Name+".qf")
					if r3.Status == "sat" {
						oo.Candidate = r3.Model
					}
					r.Seconds += r3.Seconds
				}
			}
			oo.Status, oo.Solver, oo.Seconds = r.Status, r.Solver, r.Seconds
			mdl := r.Model
			if mdl == nil {
				mdl = oo.Candidate
			}
			if mdl != nil {
				oo.Inputs = map[string]string{}
				for _, it := range o.fx.inputs {
					if v, ok := mdl[it.Term]; ok {
						oo.Inputs[it.Label] = v
					}
				}
				if r.Model == nil {
					oo.Candidate = map[string]string{"from": "quantifier-free slice"}
				}
			}
			file := fmt.Sprintf("%s/%s.smt2", *work, sanitize(o.Name))
			if r.Status != "unsat" || o.Expected != "" {
				oo.Output = truncateStr(r.Output, 2000)
				oo.File = file
			}
			if r.Status == "unsat" && !*keep {
				os.Remove(file)
			}
			outs[i] = oo
		}(i, o)
	}
	wg.Wait()
	res.Obligations = outs
	res.Errors = u.errors
	res.WallS = time.Since(t0).Seconds()
	data, _ := json.MarshalIndent(res, "", " ")
	if *out != "" {
		if err := os.WriteFile(*out, data, 0o644); err != nil {
			fmt.Fprintln(os.Stderr, err)
			os.Exit(2)
		}
	}
	// summary
	bad := 0
	for _, o := range outs {
		ok := o.Status == "unsat"
		if o.Expect == "sat" {
			ok = o.Status != "unsat"
		}
		if !ok {
			bad++
			fmt.Printf("FAILED %s [%s %s] %s  -- %s\n", o.Name, o.Status, o.Solver, o.Pos, o.Src)
		}
	}
	for _, e := range u.errors {
		fmt.Println("ERROR", e)
	}
	fmt.Printf("govc: unit=%s functions=%d obligations=%d failed=%d errors=%d load=%.1fs wall=%.1fs\n", u.Name, len(fns), len(outs), bad, len(u.errors), loadS, res.WallS)
	if len(u.errors) > 0 {
		os.Exit(2)
	}
	if bad > 0 {
		os.Exit(1)
	}
}

func stripQuantified(q string) string {
	sx, err := parseSexprs(q)
	if err != nil {
		return q
	}
	var b strings.Builder
	for _, s := range sx {
		if s.isList && len(s.list) == 2 && s.list[0].atom == "assert" && s.list[1].isList && len(s.list[1].list) > 0 && s.list[1].list[0].atom == "forall" {
			continue
		}
		t := s.String()
		if strings.Contains(t, "(forall ") || strings.Contains(t, "(exists ") {
			if s.isList && len(s.list) > 0 && s.list[0].atom == "assert" {
				continue
			}
		}
		b.WriteString(t)
		b.WriteString("\n")
	}
	return b.String()
}

func truncateStr(s string, n int) string {
	if len(s) > n {
		return s[:n] + "..."
	}
	return s
}

func solveMBQI(q string, getvals []string, timeoutS int, dir, name string) SolverResult {
	file := fmt.Sprintf("%s/%s.mbqi.smt2", dir, sanitize(name))
	gv := ""
	if len(getvals) > 0 {
		gv = "(get-value (" + strings.Join(getvals, " ") + "))\n"
	}
	body := "(set-option :produce-models true)\n(set-logic ALL)\n" + q + "(check-sat)\n" + gv
	os.WriteFile(file, []byte(body), 0o644)
	if os.Getenv("GOVC_KEEP") == "" {
		defer os.Remove(file)
	}
	sp := solverSpec{"z3-new-5.1.0+mbqi", func(f string, t int) []string {
		return []string{"z3-new", fmt.Sprintf("-T:%d", t), f}
	}}
	r := runOne(sp, file, timeoutS)
	if r.Status == "sat" {
		r.Model = parseModel(r.Output)
	}
	return r
}

var seqRe = regexp.MustCompile(`BSeq|\(len |\(at |\(view |empty|str!|\(cat |\(sub |SeqEq`)

var specLitRe = regexp.MustCompile(`str!x([0-9a-f]+)`)

var symRe = regexp.MustCompile(`[A-Za-z_][A-Za-z0-9_]*![0-9]+`)

// slicedLines: the cone of influence of an obligation. Dropping hypotheses is
// always sound for a proof; a model of the sliced query is only a candidate
// counterexample and is replayed on the real code.
func (fx *FX) slicedLines(o *Obligation, goal string) []string {
	n := o.Prefix
	defOf := map[string]int{}
	for i := 0; i < n; i++ {
		l := fx.lines[i]
		if strings.HasPrefix(l, "(declare-const ") || strings.HasPrefix(l, "(define-fun ") || strings.HasPrefix(l, "(declare-fun ") {
			f := strings.Fields(l)
			if len(f) > 1 {
				defOf[f[1]] = i
			}
		}
	}
	need := map[string]bool{}
	include := make([]bool, n)
	var work []string
	addSyms := func(txt string) {
		for _, s := range symRe.FindAllString(txt, -1) {
			if !need[s] {
				need[s] = true
				work = append(work, s)
			}
		}
	}
	addSyms(goal)
	hub := func(s string) bool {
		return strings.HasPrefix(s, "H0!") || strings.HasPrefix(s, "Hs0!") || strings.HasPrefix(s, "alloc0!")
	}
	changed := true
	for changed {
		changed = false
		for len(work) > 0 {
			s := work[len(work)-1]
			work = work[:len(work)-1]
			if i, ok := defOf[s]; ok && !include[i] {
				include[i] = true
				addSyms(fx.lines[i])
			}
		}
		for i := 0; i < n; i++ {
			if include[i] || !strings.HasPrefix(fx.lines[i], "(assert ") {
				continue
			}
			m := fx.lineMeta[i]
			if m.postAssume && m.block != nil && o.Block != nil && m.block != o.Block && !m.block.Dominates(o.Block) {
				continue
			}
			syms := symRe.FindAllString(fx.lines[i], -1)
			rel := len(syms) == 0
			onlyHub := true
			for _, s := range syms {
				if !hub(s) {
					onlyHub = false
					if need[s] {
						rel = true
					}
				}
			}
			if onlyHub && strings.Contains(fx.lines[i], "forall") {
				rel = false // quantified heap facts are only pulled in through other symbols
			} else if onlyHub {
				rel = true
			}
			if rel {
				include[i] = true
				addSyms(fx.lines[i])
				changed = true
			}
		}
	}
	var out []string
	for i := 0; i < n; i++ {
		if include[i] {
			out = append(out, fx.lines[i])
		}
	}
	return out
}

// query assembles the SMT-LIB text of one obligation.
func (fx *FX) query(o *Obligation) string { return fx.queryMode(o, false) }

func (fx *FX) queryMode(o *Obligation, sliced bool) string {
	var b strings.Builder
	goal := implies(and(o.Guard, o.Extra), o.Goal)
	if o.Expected == "sat" {
		goal = not(o.Guard)
	}
	// the string heap is declared lazily: drop its declaration when nothing else mentions sequences
	src := fx.lines[:o.Prefix]
	// cut points: hypotheses contributed by calls before the latest dominating cut are forgotten
	cutIdx := -1
	for _, c := range fx.cuts {
		if c.idx <= o.Prefix && o.Block != nil && c.block != nil && (c.block == o.Block || c.block.Dominates(o.Block)) && c.idx > cutIdx {
			cutIdx = c.idx
		}
	}
	if cutIdx > 0 {
		var kept []string
		for i, l := range src {
			if i < cutIdx && fx.lineMeta[i].droppable {
				continue
			}
			kept = append(kept, l)
		}
		src = kept
	}
	if sliced && cutIdx <= 0 {
		src = fx.slicedLines(o, goal.S+" "+o.Extra.S)
	}
	var kept []string
	for _, l := range src {
		if strings.HasPrefix(l, "(declare-const Hs0!") {
			continue
		}
		kept = append(kept, l)
	}
	body := strings.Join(kept, "\n")
	uses := seqRe.MatchString(body) || seqRe.MatchString(goal.S) || seqRe.MatchString(o.Extra.S)
	if uses {
		body = strings.Join(src, "\n")
		if sliced && !strings.Contains(body, "(declare-const Hs0!") {
			for _, l := range fx.lines[:o.Prefix] {
				if strings.HasPrefix(l, "(declare-const Hs0!") && strings.Contains(body, strings.Fields(l)[1]) {
					body = l + "\n" + body
				}
			}
		}
	}
	b.WriteString(preludeCore)
	if uses {
		b.WriteString(preludeSeq)
		// literals used by this function and by the spec library
		lits := map[string]T{}
		for s, t := range fx.strLits {
			lits[s] = t
		}
		for _, m := range specLitRe.FindAllStringSubmatch(fx.u.SpecText, -1) {
			if raw, err := hex.DecodeString(m[1]); err == nil {
				lits[string(raw)] = T{"str!x" + m[1], SSeq}
			}
		}
		var keys []string
		for s := range lits {
			keys = append(keys, s)
		}
		sort.Strings(keys)
		for _, s := range keys {
			b.WriteString(litAxioms(s, lits[s]))
		}
		b.WriteString(fx.u.specTextFor(fx.reveal(), false))
	} else {
		b.WriteString(fx.u.specTextFor(fx.reveal(), true))
	}
	b.WriteString(body)
	b.WriteString("\n")
	if o.Extra.S != "true" {
		b.WriteString("(assert " + o.Extra.S + ")\n")
	}
	b.WriteString("(assert (not " + goal.S + "))\n")
	return b.String()
}

// vacuity: every return must be reachable under the assumptions (a contradictory
// precondition or assumption would make every obligation pass).
func (fx *FX) vacuity() {
	if fx.fc == nil || len(fx.retCovers) == 0 {
		return
	}
	o := &Obligation{Name: fmt.Sprintf("%s.%s/vacuity:some-return-reachable", fx.u.Name, fx.name), Kind: "vacuity", Func: fx.name, Unit: fx.u.Name,
		Prefix: len(fx.lines), Guard: or(fx.retCovers...), Goal: tTrue, Extra: tTrue, fx: fx, Expected: "sat", Src: "some return is reachable under the precondition and all assumptions"}
	fx.obls = append(fx.obls, o)
	// and per clause `A ==> B`: A holds at some return (otherwise the clause says nothing; this is what exposes a
	// contradictory assumption that kills only some paths)
	for _, lab := range fx.anteOrder {
		o := &Obligation{Name: fmt.Sprintf("%s.%s/vacuity:antecedent:%s", fx.u.Name, fx.name, lab), Kind: "vacuity", Func: fx.name, Unit: fx.u.Name,
			Prefix: len(fx.lines), Guard: or(fx.anteCovers[lab]...), Goal: tTrue, Extra: tTrue, fx: fx, Expected: "sat",
			Src: "the antecedent of ensures[" + lab + "] is satisfiable at some return under all assumptions"}
		fx.obls = append(fx.obls, o)
	}
}

func (fx *FX) obligeTrivial(kind, label string, goal T, pos interface{ IsValid() bool }, src string) {
	key := kind
	if label != "" {
		key += ":" + label
	}
	fx.kindN[key]++
	name := fmt.Sprintf("%s.%s/%s#%d", fx.u.Name, fx.name, key, fx.kindN[key])
	o := &Obligation{Name: name, Kind: kind, Func: fx.name, Unit: fx.u.Name, Prefix: len(fx.lines), Guard: tTrue, Goal: goal, Extra: tTrue, Src: src, fx: fx, Trivial: true}
	fx.obls = append(fx.obls, o)
}

func (fx *FX) reveal() map[string]bool {
	if fx.fc == nil {
		return nil
	}
	return fx.fc.Reveal
}

func (u *Unit) unitPkg(fn *ssa.Function) *ssa.Package {
	pkg := fn.Pkg
	if pkg == nil && fn.Parent() != nil {
		pkg = fn.Parent().Pkg
	}
	switch u.Name {
	case "lib":
		if pkg != nil && pkg.Pkg.Path() == "github.com/ja7ad/otp" {
			return pkg
		}
	case "api":
		if pkg != nil && strings.HasSuffix(pkg.Pkg.Path(), "/internal/app/api") {
			return pkg
		}
	case "wasm":
		if pkg != nil && (pkg.Pkg.Path() == "github.com/ja7ad/otp" || strings.HasSuffix(pkg.Pkg.Path(), "/wasm")) {
			return pkg
		}
	}
	return nil
}

func (u *Unit) contractBelongs(name string) bool {
	pkg := strings.SplitN(name, ".", 2)[0]
	for _, p := range u.Pkgs {
		if p.Pkg.Name() == pkg && u.Name != "api" || (u.Name == "api" && pkg == "api") {
			return true
		}
	}
	return false
}

func (u *Unit) functionExists(name string) bool {
	for fn := range ssautil.AllFunctions(u.Prog) {
		if u.internal(fn) && u.contractKey(fn) == name {
			return true
		}
	}
	return false
}

func (u *Unit) intSpecText() string {
	// Int-only spec functions (no BSeq in their text)
	var b strings.Builder
	sx, _ := parseSexprs(u.SpecText)
	for _, s := range sx {
		t := s.String()
		if !strings.Contains(t, "BSeq") && !seqRe.MatchString(t) {
			b.WriteString(t)
			b.WriteString("\n")
		}
	}
	return b.String()
}

func loadUnitByName(name, repo, specs string) (*Unit, error) {
	libContracts, _ := filepath.Glob(filepath.Join(repo, "verif_contracts*.go"))
	switch name {
	case "lib":
		var cf []string
		for _, f := range libContracts {
			if !strings.HasSuffix(f, "_wasm.go") {
				cf = append(cf, f)
			}
		}
		return LoadUnit("lib", repo, []string{"."}, []string{"GOWORK=off", "GOFLAGS=", "GOPROXY=off"}, "verif", cf, specs)
	case "wasm":
		wc, _ := filepath.Glob(filepath.Join(repo, "wasm", "verif_contracts*.go"))
		return LoadUnit("wasm", repo, []string{"./wasm"}, []string{"GOWORK=off", "GOFLAGS=", "GOPROXY=off", "GOOS=js", "GOARCH=wasm"}, "verif", append(libContracts, wc...), specs)
	case "api":
		ac, _ := filepath.Glob(filepath.Join(repo, "internal", "app", "api", "verif_contracts*.go"))
		return LoadUnit("api", filepath.Join(repo, "internal", "app"), []string{"./api"}, []string{"GOFLAGS=", "GOPROXY=off", "GOWORK=" + filepath.Join(repo, "go.work")}, "verif", append(libContracts, ac...), specs)
	}
	return nil, fmt.Errorf("unknown unit %q", name)
}

// an obligation raised inside an inlined contract-less helper is named <func>/inl.<helper>:<kind>…; a kind
// selection such as "/(nopanic|pre:)" must select it exactly as it would select the same obligation of the
// caller's own body (seed C10-h: a slice-bounds obligation of an inlined helper escaped C10's selection)
var inlSegRe = regexp.MustCompile(`/(inl\.[^:/]+:)+`)

func kindSelected(kre *regexp.Regexp, name string) bool {
	if kre.MatchString(name) {
		return true
	}
	if strings.Contains(name, "/inl.") {
		return kre.MatchString(inlSegRe.ReplaceAllString(name, "/"))
	}
	return false
}
