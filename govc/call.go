package main

// Calls: builtins, contract-based modular calls, models of external functions,
// dynamic calls of function values and interface method invocations.

import (
	"fmt"
	"go/token"
	"go/types"
	"strings"

	"golang.org/x/tools/go/ssa"
)

func (fx *FX) execCall(st *State, v ssa.Value, c *ssa.CallCommon, pos token.Pos) Val {
	args := make([]Val, len(c.Args))
	for i, a := range c.Args {
		args[i] = fx.val(a)
	}
	return fx.execCallWith(st, v, c, pos, args, false)
}

func (fx *FX) resultType(c *ssa.CallCommon) types.Type {
	sig := c.Signature()
	switch sig.Results().Len() {
	case 0:
		return nil
	case 1:
		return sig.Results().At(0).Type()
	}
	return sig.Results()
}

func (fx *FX) execCallWith(st *State, v ssa.Value, c *ssa.CallCommon, pos token.Pos, args []Val, isDefer bool) Val {
	fx.inCall++
	defer func() { fx.inCall-- }()
	if bi, ok := c.Value.(*ssa.Builtin); ok {
		return fx.execBuiltin(st, v, bi, c, pos, args)
	}
	if c.IsInvoke() {
		return fx.execInvoke(st, v, c, pos, args)
	}
	if callee := c.StaticCallee(); callee != nil {
		if mc, ok := c.Value.(*ssa.MakeClosure); ok {
			_ = mc
		}
		return fx.callFunction(st, v, callee, c, pos, args, fx.val(c.Value))
	}
	// dynamic call of a function value
	fv, ok := fx.val(c.Value).(VFunc)
	if !ok {
		fx.note("call of non-function value abstracted")
		return fx.havocResult(c, "dyn")
	}
	return fx.callDynamic(st, v, fv, c, pos, args)
}

func (fx *FX) havocResult(c *ssa.CallCommon, hint string) Val {
	rt := fx.resultType(c)
	if rt == nil {
		return VUnit{}
	}
	return fx.havoc("ret_"+hint, rt, tTrue)
}

func (fx *FX) execBuiltin(st *State, v ssa.Value, bi *ssa.Builtin, c *ssa.CallCommon, pos token.Pos, args []Val) Val {
	switch bi.Name() {
	case "len":
		switch a := args[0].(type) {
		case VSlice:
			return VInt{a.Len}
		case VStr:
			r := fx.def("len", app(SInt, "len", a.T))
			_, ihi := typeBounds(types.Typ[types.Int])
			fx.setBounds(r, bigZero, ihi)
			fx.assume(tTrue, le(r, bigNum(ihi)))
			return VInt{r}
		case VMap:
			return fx.u.mapLen(fx, st, a)
		case VPtr:
			if at, ok := a.Elem.Underlying().(*types.Array); ok {
				return VInt{num(at.Len())}
			}
		case VArr:
			return VInt{num(int64(len(a.E)))}
		}
	case "cap":
		if a, ok := args[0].(VSlice); ok {
			return VInt{a.Cap}
		}
	case "append":
		return fx.execAppend(st, v, c, pos, args)
	case "copy":
		dst := args[0].(VSlice)
		var n T
		switch src := args[1].(type) {
		case VSlice:
			n = fx.def("copyn", app(SInt, "imin", dst.Len, src.Len))
			fx.copyInto(st, dst.Ref, dst.Off, src, n, c.Args[0], pos)
		case VStr:
			n = fx.def("copyn", app(SInt, "imin", dst.Len, app(SInt, "len", src.T)))
			fx.writeCheck(st, dst.Ref, rootOf(c.Args[0]), pos, "copy")
			fx.copySeqInto(st, dst.Ref, dst.Off, src.T, n)
		}
		fx.labelStoreVal(c.Args[0], c.Args[1])
		return VInt{n}
	case "print", "println":
		return VUnit{}
	case "min", "max":
		a, b := args[0].(VInt), args[1].(VInt)
		op := "imin"
		if bi.Name() == "max" {
			op = "imax"
		}
		return VInt{app(SInt, op, a.T, b.T)}
	case "delete":
		fx.note("builtin delete abstracted")
		return VUnit{}
	case "recover":
		// the recovered panic value: nil unless the function runs as a deferred call during a panic (ghost `panicking`)
		tag := fx.fresh("recovered", SInt)
		fx.assume(tTrue, ge(tag, num(0)))
		box := fx.fresh("recoveredbox", SInt)
		fx.assume(tTrue, implies(eq(tag, num(0)), eq(box, num(0))))
		fx.recoverTags = append(fx.recoverTags, tag)
		return VIface{Tag: tag, Box: box}
	}
	fx.note("builtin %s abstracted", bi.Name())
	return fx.havocResult(c, bi.Name())
}


// copyInto writes n elements of src (a slice) to object ref at offset off, exactly (memmove semantics).
func (fx *FX) copyInto(st *State, ref, off T, src VSlice, n T, dstV ssa.Value, pos token.Pos) {
	fx.writeCheck(st, ref, rootOf(dstV), pos, "copy")
	fx.readCheck(st, src.Ref, pos, "copy source")
	esz := sizeOf(src.Elem)
	if esz != 1 || len(layout(src.Elem)) != 1 || layout(src.Elem)[0].kind == lkStr {
		fx.note("copy of non-scalar elements: destination object havocked")
		st.H = fx.def("H", sto(st.H, ref, fx.fresh("copied", SIArr)))
		st.Hs = fx.def("Hs", sto(st.Hs, ref, fx.fresh("copieds", SSArr)))
		return
	}
	srcArr := fx.def("srcarr", sel(fx.rH(st, src.Ref), src.Ref))
	old := fx.def("dstold", sel(st.H, ref))
	na := fx.fresh("dstnew", SIArr)
	k := "k!c"
	fx.line(fmt.Sprintf("(assert (forall ((%s Int)) (! (= (select %s %s) (ite (and (<= %s %s) (< %s (+ %s %s))) (select %s (+ %s (- %s %s))) (select %s %s))) :pattern ((select %s %s)))))",
		k, na.S, k, off.S, k, k, off.S, n.S, srcArr.S, src.Off.S, k, off.S, old.S, k, na.S, k))
	st.H = fx.def("H", sto(st.H, ref, na))
}

// copySeqInto writes the first n elements of sequence s into object ref at offset off.
func (fx *FX) copySeqInto(st *State, ref, off, s, n T) {
	old := fx.def("dstold", sel(st.H, ref))
	na := fx.fresh("dstnew", SIArr)
	k := "k!c"
	fx.line(fmt.Sprintf("(assert (forall ((%s Int)) (! (= (select %s %s) (ite (and (<= %s %s) (< %s (+ %s %s))) (at %s (- %s %s)) (select %s %s))) :pattern ((select %s %s)))))",
		k, na.S, k, off.S, k, k, off.S, n.S, s.S, k, off.S, old.S, k, na.S, k))
	st.H = fx.def("H", sto(st.H, ref, na))
}

// execAppend models append exactly: in place when the capacity suffices, otherwise a fresh object.
func (fx *FX) execAppend(st *State, v ssa.Value, c *ssa.CallCommon, pos token.Pos, args []Val) Val {
	dst := args[0].(VSlice)
	fx.labelJoinV(v, c.Args[0], c.Args[1])
	esz := sizeOf(dst.Elem)
	scalar := esz == 1 && len(layout(dst.Elem)) == 1 && layout(dst.Elem)[0].kind != lkStr
	var n T
	var srcSeq T
	haveSeq := false
	switch src := args[1].(type) {
	case VSlice:
		n = src.Len
		if scalar {
			fx.readCheck(st, src.Ref, pos, "append source")
			srcSeq = fx.def("appsrc", app(SSeq, "view", sel(fx.rH(st, src.Ref), src.Ref), src.Off, src.Len))
			haveSeq = true
		}
	case VStr:
		n = fx.def("n", app(SInt, "len", src.T))
		srcSeq = src.T
		haveSeq = true
	default:
		fx.note("append with unsupported source abstracted")
		return fx.havocResult(c, "append")
	}
	newLen := fx.def("applen", add(dst.Len, n))
	fits := fx.def("appfits", le(newLen, dst.Cap))
	// in-place branch: writes into the backing object of dst beyond its length
	if _, lit := isLit(n); !(lit && n.S == "0") {
		fx.writeCheckGuarded(st, and(fits, gt(n, num(0))), dst.Ref, rootOf(c.Args[0]), pos, "append in place")
	}
	fr := fx.newRef()
	delete(fx.knownFresh, fr.S) // the result may alias dst: not statically fresh
	fx.assume(tTrue, not(sel(st.Alloc, fr)))
	newCap := fx.fresh("growncap", SInt)
	fx.assume(tTrue, ge(newCap, newLen))
	if scalar && haveSeq {
		// in place: H[dst.ref][dst.off+dst.len+k] = src[k]
		oldArr := fx.def("appold", sel(st.H, dst.Ref))
		// The contents of the result are stated at the sequence level only (result == old ++ src):
		// element-wise quantified facts made every later heap read expensive. What append leaves in
		// the rest of the backing object is left unconstrained (fewer facts: sound).
		inpl := fx.fresh("appinpl", SIArr)
		grown := fx.fresh("appgrown", SIArr)
		oldView := fx.def("appoldview", app(SSeq, "view", oldArr, dst.Off, dst.Len))
		resRef := fx.def("appref", ite(fits, dst.Ref, fr))
		resArr := fx.def("apparr", ite(fits, inpl, grown))
		st.H = fx.def("H", sto(st.H, resRef, resArr))
		// sequence-level consequence of the element-wise facts: the result is old ++ src
		fx.assume(tTrue, eq(app(SSeq, "view", resArr, ite(fits, dst.Off, num(0)), newLen), app(SSeq, "cat", oldView, srcSeq)))
	} else if src, isSl := args[1].(VSlice); isSl && n.S == "1" && esz == 1 && len(layout(dst.Elem)) == 1 && layout(dst.Elem)[0].kind == lkStr {
		// append(s, x) for a []string: the element lands at index len(s), in place or in a fresh copy of s.
		// The result's backing array is a fresh constant related to the old one by two-way triggered axioms, so that
		// facts about old elements carry over in both directions (needed for "every visited key is in the list").
		elem := fx.def("appelem", sel(sel(st.Hs, src.Ref), src.Off))
		oldS := fx.def("appsold", sel(st.Hs, dst.Ref))
		resS := fx.fresh("appsres", SSArr)
		pos0 := fx.def("appspos", add(dst.Off, dst.Len))
		fx.line(fmt.Sprintf("(assert (=> %s (forall ((k!a Int)) (! (=> (not (= k!a %s)) (= (select %s k!a) (select %s k!a))) :pattern ((select %s k!a)) :pattern ((select %s k!a))))))",
			fits.S, pos0.S, resS.S, oldS.S, resS.S, oldS.S))
		fx.line(fmt.Sprintf("(assert (=> (not %s) (forall ((k!a Int)) (! (=> (and (<= 0 k!a) (< k!a %s)) (= (select %s k!a) (select %s (+ %s k!a)))) :pattern ((select %s k!a)) :pattern ((select %s (+ %s k!a)))))))",
			fits.S, dst.Len.S, resS.S, oldS.S, dst.Off.S, resS.S, oldS.S, dst.Off.S))
		fx.assume(tTrue, eq(sel(resS, ite(fits, pos0, dst.Len)), elem))
		resRef := fx.def("appref", ite(fits, dst.Ref, fr))
		st.Hs = fx.def("Hs", sto(st.Hs, resRef, resS))
	} else {
		fx.note("append of non-byte elements: written region havocked")
		resRef := fx.def("appref", ite(fits, dst.Ref, fr))
		st.H = fx.def("H", sto(st.H, resRef, fx.fresh("apparr", SIArr)))
		if hasStrLeaf(dst.Elem) {
			st.Hs = fx.def("Hs", sto(st.Hs, resRef, fx.fresh("appsarr", SSArr)))
		}
	}
	st.Alloc = fx.def("alloc", sto(st.Alloc, fr, tTrue))
	resRefT := fx.def("appref", ite(fits, dst.Ref, fr))
	res := VSlice{
		Ref:  resRefT,
		Off:  fx.def("appoff", ite(fits, dst.Off, num(0))),
		Len:  newLen,
		Cap:  fx.def("appcap", ite(fits, dst.Cap, newCap)),
		Elem: dst.Elem,
	}
	// append(nil-slice, nothing) stays nil
	return res
}

func (fx *FX) writeCheckGuarded(st *State, g T, ref T, root ssa.Value, pos token.Pos, what string) {
	s2 := st.clone()
	s2.PC = and(st.PC, g)
	fx.writeCheck(s2, ref, root, pos, what)
}

// ---------------------------------------------------------------------------

func (fx *FX) callFunction(st *State, v ssa.Value, callee *ssa.Function, c *ssa.CallCommon, pos token.Pos, args []Val, fval Val) Val {
	if m := fx.u.modelFor(callee); m != nil {
		return m.Apply(fx, st, &CallCtx{V: v, C: c, Pos: pos, Args: args, Callee: callee})
	}
	if fx.u.internal(callee) {
		if callee.Name() == "writeError" {
			// an error response is an error text: no secret-derived argument may flow into it
			fx.errorText(st, &CallCtx{V: v, C: c, Pos: pos, Args: args, Callee: callee})
		}
		fc := fx.u.contractOf(callee)
		var env T = num(0)
		if f, ok := fval.(VFunc); ok {
			env = f.Env
		}
		return fx.callContract(st, v, callee, fc, c, pos, args, env, tTrue)
	}
	fx.note("external function %s has no model: result unconstrained, assumed total and effect-free", callee.String())
	if fx.fn.Name() != "init" && !strings.HasPrefix(fx.fn.Name(), "init#") {
		// effect-free is only assumed for arguments the call owns or merely reads: package-level state handed by
		// address to unmodelled code (sync.Map, atomic.Value, a mutex-guarded cache, ...) is shared mutable state
		for _, a := range c.Args {
			switch a.Type().Underlying().(type) {
			case *types.Pointer, *types.Map, *types.Slice:
				if g, ok := rootOf(a).(*ssa.Global); ok {
					fx.oblige("own:global-escape", "", st.PC, tFalse, pos, "package-level "+g.Name()+" handed to unmodelled "+callee.String()+": results may depend on call history")
				}
			}
		}
	}
	fx.labelCallDefault(v, c)
	return fx.havocResult(c, callee.Name())
}

// callContract applies the contract of an in-unit callee (or none: havoc) at a call site.
func (fx *FX) callContract(st *State, v ssa.Value, callee *ssa.Function, fc *FuncContract, c *ssa.CallCommon, pos token.Pos, args []Val, envRef T, guard T) Val {
	rt := fx.resultType(c)
	var res Val = VUnit{}
	if rt != nil {
		res = fx.havoc("ret_"+callee.Name(), rt, tTrue)
	}
	fx.labelCall(v, callee, c)
	fx.calleeCompareScan(callee, c, pos, 0)
	g := and(st.PC, guard)
	if fc == nil {
		if fx.inlinable(callee) {
			if r, ok := fx.inlineCall(st, callee, args, envRef, guard, pos); ok {
				return r
			}
		}
		fx.note("callee %s has no contract and cannot be inlined: result unconstrained", callee.Name())
		fx.markResultAllocated(st, rt, res)
		return res
	}
	fc.Used = true
	sub := &FX{u: fx.u, fn: callee, fc: fc, name: fx.name}
	_ = sub
	// an unconditional `ensures offset0(r)` (proved in the callee) makes the result slice's offset the literal 0 here,
	// which keeps index arithmetic out of the quantifier patterns of the callee's other clauses
	if rsl, isSl := res.(VSlice); isSl && len(fc.Results) == 1 {
		for _, e := range fc.Ensures {
			if ec, ok := e.E.(ECall); ok && ec.Fn == "offset0" && len(ec.Args) == 1 {
				if id, ok := ec.Args[0].(EIdent); ok && id.Name == fc.Results[0] {
					rsl.Off = num(0)
					res = rsl
				}
			}
		}
	}
	// callee environment
	ce := &calleeEnv{caller: fx, callee: callee, fc: fc, st: st.clone(), params: map[string]Val{}}
	for i, p := range callee.Params {
		name := p.Name()
		if i < len(fc.Params) {
			name = fc.Params[i]
		}
		if i < len(args) {
			ce.params[name] = args[i]
		}
	}
	// free variables: cells captured by the closure live in the env object
	off := int64(0)
	for _, fv := range callee.FreeVars {
		cellPtrLeaves := fx.loadLeaves(st, envRef, num(off), fv.Type())
		cp, _ := unflatten(fv.Type(), cellPtrLeaves)
		off += sizeOf(fv.Type())
		if pt, ok := fv.Type().(*types.Pointer); ok {
			p := cp.(VPtr)
			cell, _ := unflatten(pt.Elem(), fx.loadLeaves(st, p.Ref, p.Off, pt.Elem()))
			ce.params[fv.Name()] = cell
		}
	}
	// closures passed for function-typed parameters declared pure: their contract describes apply(closure)
	for i, p := range callee.Params {
		name := p.Name()
		if i < len(fc.Params) {
			name = fc.Params[i]
		}
		if !fc.PureFn[name] || i >= len(args) {
			continue
		}
		fv, ok := args[i].(VFunc)
		if !ok {
			continue
		}
		fx.assumeClosureContract(st, fv, p.Type(), g, pos)
	}
	env := ce.env(fx, st)
	for _, l := range fc.Lets {
		env.bound[l.Name] = fx.evalExpr(env, l.E)
	}
	for i, r := range fc.Requires {
		fx.oblige("pre", fmt.Sprintf("%s.%d", fx.u.shortName(callee), i+1), g, fx.goalBool(env, r.E), pos, r.Src)
	}
	// the callee's functional clauses hold on its domain only
	calleeDomain := tTrue
	calleeDomainFor := map[string]T{}
	for _, dcl := range fc.Domain {
		t := fx.hypBool(env, dcl.E)
		if dcl.Label == "" {
			calleeDomain = and(calleeDomain, t)
		} else {
			old, ok := calleeDomainFor[dcl.Label]
			if !ok {
				old = tTrue
			}
			calleeDomainFor[dcl.Label] = and(old, t)
		}
	}
	calleeDomain = fx.def("calleedomain", calleeDomain)
	// modifies: havoc the named objects (the caller must itself be allowed to write them)
	for _, m := range fc.Modifies {
		mv := fx.evalExpr(env, m)
		var ref T
		switch x := mv.(type) {
		case VPtr:
			ref = x.Ref
		case VSlice:
			ref = x.Ref
		default:
			continue
		}
		var root ssa.Value
		if id, ok := m.(EIdent); ok {
			for i, p := range callee.Params {
				nm := p.Name()
				if i < len(fc.Params) {
					nm = fc.Params[i]
				}
				if nm == id.Name && i < len(c.Args) {
					root = rootOf(c.Args[i])
				}
			}
		}
		fx.writeCheckGuarded(st, guard, ref, root, pos, "callee "+callee.Name()+" modifies")
		st.H = fx.def("H", ite(guard, sto(st.H, ref, fx.fresh("modobj", SIArr)), st.H))
		st.Hs = fx.def("Hs", ite(guard, sto(st.Hs, ref, fx.fresh("modsobj", SSArr)), st.Hs))
	}
	fx.markResultAllocated(st, rt, res)
	// ensures
	post := ce.env(fx, st)
	post.old = ce.st
	for k, x := range env.bound {
		post.bound[k] = x
	}
	names := resultNamesOf(callee, fc)
	if tup, ok := res.(VTuple); ok {
		for i, e := range tup.E {
			post.bound[names[i]] = e
		}
	} else if rt != nil {
		post.bound[names[0]] = res
		post.bound["result"] = res
	}
	// the ghost position in the random stream: in the callee's clauses rngpos0 is the caller's position before the
	// call and rngpos the position after it (a callee that may read the stream without saying how far leaves it unknown)
	mentionsRng := false
	for _, e := range fc.Ensures {
		if strings.Contains(e.Src, "rngpos") {
			mentionsRng = true
		}
	}
	if mentionsRng || fx.u.mayReadRandom(callee, map[*ssa.Function]bool{}) {
		pre := fx.rngPos
		after := fx.fresh("rngpos", SInt)
		fx.assume(tTrue, ge(after, pre))
		post.bound["rngpos0"] = VInt{pre}
		post.bound["rngpos"] = VInt{after}
		fx.rngPos = after
	}
	for _, e := range fc.Ensures {
		gd := and(g, calleeDomain)
		if d, ok := calleeDomainFor[e.Label]; ok {
			gd = and(gd, d)
		}
		fx.assume(gd, fx.hypBool(post, e.E))
	}
	return res
}

// mayReadRandom: the function (transitively, through static calls inside the unit) calls crypto/rand.Read.
func (u *Unit) mayReadRandom(fn *ssa.Function, seen map[*ssa.Function]bool) bool {
	if fn == nil || seen[fn] {
		return false
	}
	seen[fn] = true
	for _, b := range fn.Blocks {
		for _, in := range b.Instrs {
			if ci, ok := in.(ssa.CallInstruction); ok {
				if cal := ci.Common().StaticCallee(); cal != nil {
					if cal.String() == "crypto/rand.Read" {
						return true
					}
					if u.internal(cal) && u.mayReadRandom(cal, seen) {
						return true
					}
				}
			}
		}
	}
	return false
}

func (fx *FX) markResultAllocated(st *State, rt types.Type, res Val) {
	if rt == nil {
		return
	}
	ls := layout(rt)
	ts := flatten(res)
	for i, l := range ls {
		if l.kind == lkRef {
			st.Alloc = fx.def("alloc", ite(eq(ts[i], num(0)), st.Alloc, sto(st.Alloc, ts[i], tTrue)))
		}
	}
}

func resultNamesOf(fn *ssa.Function, fc *FuncContract) []string {
	sig := fn.Signature
	out := make([]string, sig.Results().Len())
	for i := range out {
		out[i] = fmt.Sprintf("r%d", i)
		if n := sig.Results().At(i).Name(); n != "" && n != "_" {
			out[i] = n
		}
		if fc != nil && i < len(fc.Results) {
			out[i] = fc.Results[i]
		}
	}
	return out
}

type calleeEnv struct {
	caller *FX
	callee *ssa.Function
	fc     *FuncContract
	st     *State
	params map[string]Val
}

func (ce *calleeEnv) env(fx *FX, st *State) *Env {
	e := &Env{fx: fx, st: st, old: ce.st, bound: map[string]Val{}, calleeParams: ce.params, calleeMode: true}
	return e
}

// ---------------------------------------------------------------------------
// dynamic calls

func (fx *FX) callDynamic(st *State, v ssa.Value, fv VFunc, c *ssa.CallCommon, pos token.Pos, args []Val) Val {
	if id, ok := isLit(fv.Id); ok && id == -1 {
		// a function value produced by an external package (e.g. the swagger handler): nothing is known
		// about it; every object reachable through a pointer argument is havocked
		fx.note("call of a function value created by an external package: its effects on pointer arguments are unconstrained")
		for i, a := range args {
			if p, ok := a.(VPtr); ok {
				var root ssa.Value
				if i < len(c.Args) {
					root = rootOf(c.Args[i])
				}
				fx.writeCheck(st, p.Ref, root, pos, "external function value may write its argument")
				st.H = fx.def("H", sto(st.H, p.Ref, fx.fresh("extobj", SIArr)))
				st.Hs = fx.def("Hs", sto(st.Hs, p.Ref, fx.fresh("extsobj", SSArr)))
			}
		}
		return fx.havocResult(c, "extfn")
	}
	sig := c.Signature()
	cands := fx.u.funcCandidates(sig)
	// function-typed parameter declared pure: deterministic uninterpreted result
	if p, ok := c.Value.(*ssa.Parameter); ok && fx.fc != nil && fx.fc.PureFn[p.Name()] {
		return fx.callPureParam(st, v, p, fv, c)
	}
	rt := fx.resultType(c)
	var res Val = VUnit{}
	if rt != nil {
		res = fx.havoc("ret_dyn", rt, tTrue)
	}
	var alts []T
	for _, cand := range cands {
		alts = append(alts, eq(fv.Id, num(fx.u.fnID(cand))))
	}
	fx.oblige("call-target", "", st.PC, or(alts...), pos, "dynamic call target must be one of the address-taken functions of this signature")
	if len(cands) == 0 {
		fx.note("dynamic call with no known candidate abstracted")
		return res
	}
	fx.labelCallDefault(v, c)
	for _, cand := range cands {
		g := eq(fv.Id, num(fx.u.fnID(cand)))
		var r Val
		if m := fx.u.modelFor(cand); m != nil {
			s2 := st.clone()
			s2.PC = and(st.PC, g)
			r = m.Apply(fx, s2, &CallCtx{V: v, C: c, Pos: pos, Args: args, Callee: cand})
			fx.mergeInto(st, g, s2)
		} else if fx.u.internal(cand) {
			r = fx.callContract(st, v, cand, fx.u.contractOf(cand), c, pos, args, fv.Env, g)
		} else {
			continue
		}
		if rt != nil {
			fr, fres := flatten(r), flatten(res)
			for i := range fr {
				fx.assume(and(st.PC, g), eq(fres[i], fr[i]))
			}
		}
	}
	fx.markResultAllocated(st, rt, res)
	return res
}

func (fx *FX) mergeInto(st *State, g T, s2 *State) {
	st.H = fx.def("H", ite(g, s2.H, st.H))
	st.Hs = fx.def("Hs", ite(g, s2.Hs, st.Hs))
	st.Alloc = fx.def("alloc", ite(g, s2.Alloc, st.Alloc))
	st.Pooled = fx.def("pooled", ite(g, s2.Pooled, st.Pooled))
	st.Released = fx.def("released", ite(g, s2.Released, st.Released))
	st.Frozen = fx.def("frozen", ite(g, s2.Frozen, st.Frozen))
	st.Now = ite(g, s2.Now, st.Now)
	st.NowN = ite(g, s2.NowN, st.NowN)
}

// callPureParam: a function-typed parameter treated as a deterministic total function
// of the closure value; its results are uninterpreted functions of the closure.
func (fx *FX) callPureParam(st *State, v ssa.Value, p *ssa.Parameter, fv VFunc, c *ssa.CallCommon) Val {
	rt := fx.resultType(c)
	if rt == nil {
		return VUnit{}
	}
	res := fx.u.pureApply(fx, fv, rt)
	fx.labelPure(v, p)
	return res
}

// ---------------------------------------------------------------------------
// interface method calls

func (fx *FX) execInvoke(st *State, v ssa.Value, c *ssa.CallCommon, pos token.Pos, args []Val) Val {
	recv := fx.val(c.Value).(VIface)
	fx.oblige("nopanic:nil", "", st.PC, not(eq(recv.Tag, num(0))), pos, "method call on nil interface")
	if m := fx.u.invokeModel(c); m != nil {
		return m.Apply(fx, st, &CallCtx{V: v, C: c, Pos: pos, Args: args, Recv: recv})
	}
	// in-unit interface: dispatch over the concrete types of the unit that implement it
	impls := fx.u.implementations(c)
	rt := fx.resultType(c)
	var res Val = VUnit{}
	if rt != nil {
		res = fx.havoc("ret_"+c.Method.Name(), rt, tTrue)
	}
	if len(impls) == 0 {
		fx.note("interface method %s has no known implementation or model: result unconstrained", c.Method.FullName())
		fx.labelCallDefault(v, c)
		return res
	}
	var alts []T
	fx.labelCallDefault(v, c)
	for _, im := range impls {
		g := eq(recv.Tag, num(fx.u.typeTag(im.recvType)))
		alts = append(alts, g)
		// receiver value loaded from the box
		rv, _ := unflatten(im.recvType, fx.loadLeaves(st, recv.Box, num(0), im.recvType))
		a2 := append([]Val{rv}, args...)
		r := fx.callContract(st, v, im.fn, fx.u.contractOf(im.fn), c, pos, a2, num(0), g)
		if rt != nil {
			fr, fres := flatten(r), flatten(res)
			for i := range fr {
				fx.assume(and(st.PC, g), eq(fres[i], fr[i]))
			}
		}
	}
	fx.oblige("call-target", c.Method.Name(), st.PC, or(alts...), pos, "dynamic type of the receiver must be a known implementation")
	fx.markResultAllocated(st, rt, res)
	return res
}

func relName(fn *ssa.Function) string {
	s := fn.RelString(fn.Pkg.Pkg)
	if fn.Pkg == nil {
		s = fn.String()
	}
	return s
}

func qualName(fn *ssa.Function) string {
	if fn.Pkg == nil {
		return fn.String()
	}
	return fn.Pkg.Pkg.Name() + "." + strings.TrimPrefix(fn.RelString(fn.Pkg.Pkg), "")
}

// assumeClosureContract: the results apply(fv) of a pure function value satisfy the contract
// of the function literal it was made from, with the captured variables read at this point.
func (fx *FX) assumeClosureContract(st *State, fv VFunc, ft types.Type, g T, pos token.Pos) {
	id, ok := isLit(fv.Id)
	if !ok || id < 1 || id > int64(len(fx.u.fnList)) {
		fx.note("function value passed for a pure parameter is not a literal closure: nothing known about its result")
		return
	}
	fn := fx.u.fnList[id-1]
	fc := fx.u.contractOf(fn)
	if fc == nil {
		if fx.inlinable(fn) {
			// the closure body is executed symbolically here; apply(closure) is its result
			s2 := st.clone()
			if r, ok := fx.inlineCall(s2, fn, nil, fv.Env, g, pos); ok {
				sig := ft.Underlying().(*types.Signature)
				var rt types.Type = sig.Results()
				if sig.Results().Len() == 1 {
					rt = sig.Results().At(0).Type()
				}
				ap := fx.u.pureApply(fx, fv, rt)
				fa, fr := flatten(ap), flatten(r)
				for i := range fa {
					fx.assume(and(g, s2.PC), eq(fa[i], fr[i]))
				}
				return
			}
		}
		fx.note("closure %s has no contract: nothing known about its result", fn.Name())
		return
	}
	fc.Used = true
	sig := ft.Underlying().(*types.Signature)
	var rt types.Type = sig.Results()
	if sig.Results().Len() == 1 {
		rt = sig.Results().At(0).Type()
	}
	res := fx.u.pureApply(fx, fv, rt)
	ce := &calleeEnv{caller: fx, callee: fn, fc: fc, st: st.clone(), params: map[string]Val{}}
	off := int64(0)
	for _, v := range fn.FreeVars {
		cp, _ := unflatten(v.Type(), fx.loadLeaves(st, fv.Env, num(off), v.Type()))
		off += sizeOf(v.Type())
		if pt, ok := v.Type().(*types.Pointer); ok {
			p := cp.(VPtr)
			cell, _ := unflatten(pt.Elem(), fx.loadLeaves(st, p.Ref, p.Off, pt.Elem()))
			ce.params[v.Name()] = cell
		}
	}
	env := ce.env(fx, st)
	for _, l := range fc.Lets {
		env.bound[l.Name] = fx.evalExpr(env, l.E)
	}
	for i, r := range fc.Requires {
		fx.oblige("pre", fmt.Sprintf("%s.%d", fn.Name(), i+1), g, fx.goalBool(env, r.E), pos, r.Src)
	}
	names := resultNamesOf(fn, fc)
	if tup, ok := res.(VTuple); ok {
		for i, e := range tup.E {
			env.bound[names[i]] = e
		}
	} else {
		env.bound[names[0]] = res
		env.bound["result"] = res
	}
	for _, e := range fc.Ensures {
		fx.assume(g, fx.hypBool(env, e.E))
	}
}

// ---------------------------------------------------------------------------
// inlining of in-unit callees that have no contract

// inlinable: loop-free, non-recursive (bounded depth), body available.
func (fx *FX) inlinable(callee *ssa.Function) bool {
	if callee == nil || len(callee.Blocks) == 0 || fx.inlineDepth >= 3 {
		return false
	}
	if len(callee.Blocks) > 40 {
		return false
	}
	for _, b := range callee.Blocks {
		for _, s := range b.Succs {
			if s.Dominates(b) {
				return false // loop
			}
		}
		for _, in := range b.Instrs {
			switch in.(type) {
			case *ssa.Go, *ssa.Select, *ssa.Send:
				return false
			}
		}
	}
	for f := fx.fn; f != nil; f = nil {
		if f == callee {
			return false
		}
	}
	for _, f := range fx.inlineStack {
		if f == callee {
			return false
		}
	}
	return true
}

// inlineCall executes the body of callee symbolically in the caller's context (the verified text is
// the callee's own SSA). Its safety obligations are generated at this call site, relative to the
// caller's frame. Returns the result value and the merged exit state.
func (fx *FX) inlineCall(st *State, callee *ssa.Function, args []Val, envRef T, guard T, pos token.Pos) (Val, bool) {
	sub := &FX{u: fx.u, fn: callee, fc: nil, name: fx.name, usedModels: fx.usedModels, mapOrigin: fx.mapOrigin, pureDecl: fx.pureDecl}
	sub.inlineDepth = fx.inlineDepth + 1
	sub.inlineStack = append(append([]*ssa.Function{}, fx.inlineStack...), fx.fn)
	sub.initMaps()
	sub.vals = map[ssa.Value]Val{}
	sub.out = map[*ssa.BasicBlock]*State{}
	sub.kindN = fx.kindN
	sub.names = map[string]ssa.Value{}
	sub.loops = map[*ssa.BasicBlock]*loopInfo{}
	sub.inLoop = map[*ssa.BasicBlock]*loopInfo{}
	sub.defers = map[*ssa.BasicBlock][]deferred{}
	sub.bnd = fx.bnd
	sub.tz = fx.tz
	sub.knownFresh = fx.knownFresh
	sub.nonNil = fx.nonNil
	sub.privCache = map[*ssa.Alloc]bool{}
	sub.privByRef = fx.privByRef
	sub.phiN = map[string]int{}
	sub.bound = map[ssa.Value]bool{}
	sub.assertsSeen = map[string]bool{}
	sub.entryRefs = fx.entryRefs
	if fx.strLits == nil {
		fx.strLits = map[string]T{}
	}
	sub.strLits = fx.strLits
	sub.entry = fx.entry
	sub.modRefs = fx.modRefs
	sub.n = fx.n
	sub.stampN = fx.stampN
	sub.rngPos, sub.rngPos0 = fx.rngPos, fx.rngPos0
	sub.domain, sub.domainAll = tTrue, tTrue
	sub.labels = fx.labels
	sub.inlinedIn = fx
	sub.fnSplits = fx.fnSplits
	sub.callerLoop = fx.inLoop[fx.curBlock]
	if fx.callerLoop != nil && sub.callerLoop == nil {
		sub.callerLoop = fx.callerLoop
	}
	base := len(fx.lines)
	sub.lineBase = base + fx.lineBase
	// parameters
	for i, p := range callee.Params {
		if i < len(args) {
			sub.vals[p] = args[i]
		}
	}
	off := int64(0)
	for _, fv := range callee.FreeVars {
		cp, _ := unflatten(fv.Type(), fx.loadLeaves(st, envRef, num(off), fv.Type()))
		off += sizeOf(fv.Type())
		sub.vals[fv] = cp
		if p, ok := cp.(VPtr); ok {
			sub.nonNil[p.Ref.S] = true
		}
	}
	entry := st.clone()
	entry.PC = and(st.PC, guard)
	order := sub.blockOrder()
	sub.inlineRets = nil
	sub.computeLabelsInline(fx)
	for _, b := range order {
		sub.execBlock(b, entry)
	}
	// move the generated script and obligations into the caller
	for i, l := range sub.lines {
		fx.lines = append(fx.lines, l)
		m := sub.lineMeta[i]
		m.block = fx.curBlock
		fx.lineMeta = append(fx.lineMeta, m)
	}
	for _, o := range sub.obls {
		o.Prefix += base
		o.fx = fx
		o.Block = fx.curBlock
		o.Name = strings.Replace(o.Name, "/", "/inl."+fx.u.shortName(callee)+":", 1)
		fx.obls = append(fx.obls, o)
	}
	fx.n, fx.stampN = sub.n, sub.stampN
	fx.rngPos = sub.rngPos
	fx.abstractions = append(fx.abstractions, sub.abstractions...)
	fx.warnings = append(fx.warnings, sub.warnings...)
	if len(sub.inlineRets) == 0 {
		// no normal return (e.g. always panics): the path ends here
		st.PC = and(st.PC, not(guard))
		rt := callee.Signature.Results()
		if rt.Len() == 0 {
			return VUnit{}, true
		}
		return fx.havoc("noreturn", resultTypeOf(callee), tTrue), true
	}
	// merge the returns
	var conds []T
	var sts []*State
	for _, r := range sub.inlineRets {
		conds = append(conds, r.st.PC)
		sts = append(sts, r.st)
	}
	merged := fx.mergeStates(conds, sts)
	var res Val = VUnit{}
	if rt := resultTypeOf(callee); rt != nil {
		var v Val
		for k := len(sub.inlineRets) - 1; k >= 0; k-- {
			if v == nil {
				v = sub.inlineRets[k].val
			} else {
				v = iteVal(rt, conds[k], sub.inlineRets[k].val, v)
			}
		}
		res = fx.defVal("inl_"+callee.Name(), rt, v)
	}
	// back in the caller: the state is the callee's exit state where the call was made, else unchanged
	fx.mergeInto(st, merged.PC, merged)
	st.PC = fx.def("pc", or(and(st.PC, not(guard)), merged.PC))
	for a, v := range st.Priv {
		_ = v
		delete(st.Priv, a) // conservatively forget private-local versions across the inlined body
	}
	return res, true
}

func resultTypeOf(fn *ssa.Function) types.Type {
	r := fn.Signature.Results()
	switch r.Len() {
	case 0:
		return nil
	case 1:
		return r.At(0).Type()
	}
	return r
}

type inlineRet struct {
	st  *State
	val Val
}
